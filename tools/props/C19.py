"""C19 - the CFG debug dump is a faithful, reloadable serialisation.
Theorems: Props/C19.v (round trip and injectivity of the value, memory-location, register-set and node-record
codecs).  Tie: the serde data the implementation hands to serde_yaml for every node of the finished graph, field
by field, against the model's tree.  Search oracle on the implementation alone: dump -> text -> load -> dump
must reproduce the same data."""
import re
import lib, pipe
from props import generic

ENTRY = re.compile(r"func_entry=\[([^\]]*)\] func_exit=\[([^\]]*)\]")


def canon(line):
    """the functions of a node are a hash set: the dump lists them in hash order, as two PARALLEL lists (entry i and exit i
    belong to the same function).  Canonical form: the list of (entry, exit) pairs, sorted as pairs - never each list alone."""
    line = lib._PICKS.sub("", line)
    line = re.sub(r"RT=\w+", "", line)
    line = " ".join(line.split())

    def pairs(m):
        a, b = m.group(1).split(",") if m.group(1) else [], m.group(2).split(",") if m.group(2) else []
        if len(a) != len(b):
            return m.group(0)
        key = lambda x: int(x[1:]) if x[1:].lstrip("-").isdigit() else 0
        ps = sorted(zip(a, b), key=lambda p: (key(p[0]), key(p[1])))
        return "func_entry=[%s] func_exit=[%s]" % (",".join(p[0] for p in ps), ",".join(p[1] for p in ps))
    return ENTRY.sub(pairs, line)


def run(ctx):
    from props import common
    proof_ok, can_run = common.prepare(ctx, "C19")
    if not can_run:
        common.broken_without_input(ctx, "build", ctx.notes[-1] if ctx.notes else "")
        return
    stores = generic.stores_for(ctx, dict(conforming=60, flow=60, random=60, injected=40, handlers=30, stack=30, csrmem=60, cutflow=40, cutinjected=20))
    sb = [(f, b) for f, b, _ in stores]
    impl, model = lib.run_pair_with_picks(ctx, lambda p, x: lib.store_cmd("yaml %s" % p, x[0], x[1]), sb, tag="yaml")
    raw = lib.run_impl(ctx, [lib.store_cmd("yaml -", f, b) for f, b in sb], tag="yaml-rt")
    dis, failing = [], []
    kinds = {}
    # the dump against the graph it was made from (implementation alone): entry i and exit i of a node are the entry and the
    # exit of ONE of its functions
    import dump
    graphs = lib.run_impl(ctx, [lib.store_cmd("cfg live -", f, b) for f, b in sb], tag="graphs")
    for (f, b, tag), r, gl in zip(stores, raw, graphs):
        g = dump.parse(lib._PICKS.sub("", gl))
        if g is None:
            continue
        for m in re.finditer(r"Y\((\d+) func_entry=\[([^\]]*)\] func_exit=\[([^\]]*)\]", r):
            i = int(m.group(1))
            e = [int(x[1:]) for x in m.group(2).split(",") if x]
            x = [int(y[1:]) for y in m.group(3).split(",") if y]
            if i >= len(g["nodes"]):
                continue
            # each value fact is written with the tag of ITS kind (the graph's facts are read through the library API)
            node_txt = r[m.start():]
            node_txt = node_txt[:node_txt.find(") Y(") if ") Y(" in node_txt else len(node_txt)]
            for fld, facts in (("ri", g["nodes"][i].ri), ("ro", g["nodes"][i].ro)):
                fm = re.search(r" %s=\{([^}]*)\}" % fld, node_txt)
                dumped = dict((kv.split("=")[0][1:], kv.split("=")[1].split("(")[0].lstrip("!")) for kv in fm.group(1).split(";") if "=" in kv) if fm else {}
                kinds = dict((k_, v_.split(":")[0]) for k_, v_ in facts.items())
                if dumped != kinds:
                    diff = [(k_, kinds.get(k_), dumped.get(k_)) for k_ in sorted(set(kinds) | set(dumped), key=lambda z: int(z) if z.isdigit() else 0) if kinds.get(k_) != dumped.get(k_)]
                    failing.append(dict(files=f, base=b, kind=tag, why="node %d %s: (register, kind of the fact, tag in the dump) differ: %s" % (i, fld, diff[:4])))
                    break
            # every fact of the node, registers and memory: same key (the CSR / stack slot it is about), same kind, same numbers
            # (the graph's facts are read through the library API - CSR numbers through their Debug text - not through serde)
            def dump_items(txt):
                out = []
                for it in re.findall(r"i-?\d+|s[0-9.]+|s(?![0-9])", txt):
                    out.append(int(it[1:]) if it[0] == "i" else lib.dec(it[1:]))
                return tuple(out)

            def dump_key(k_):
                if k_[0] == "i":
                    return ("reg", (int(k_[1:]),))
                t_ = lib.dec(k_[1:])
                return (re.match(r"[a-z]+", t_).group(0), tuple(int(z) for z in re.findall(r"[+-]?\d+", t_)))

            def graph_key(k_):
                if k_.lstrip("-").isdigit():
                    return ("reg", (int(k_),))
                parts = k_.split(":")
                return (parts[0], tuple(int(z) for z in parts[1:]))

            def graph_val(v_):
                parts = v_.split(":")
                if parts[0] in ("a", "m"):   # an address / the memory at a label: the label's name (encoded as character codes)
                    return (parts[0], (lib.dec(parts[1]),) + tuple(int(z) for z in parts[2:]))
                return (parts[0], tuple((int(z) if z.lstrip("-").isdigit() else lib.dec(z)) for z in parts[1:]))
            bad_fact = None
            for fld, facts in (("ri", g["nodes"][i].ri), ("ro", g["nodes"][i].ro), ("mi", g["nodes"][i].mi), ("mo", g["nodes"][i].mo)):
                fm = re.search(r" %s=\{([^}]*)\}" % fld, node_txt)
                dm = {}
                for kv_ in (fm.group(1).split(";") if fm and fm.group(1) else []):
                    k_, v_ = kv_.split("=", 1)
                    dm[dump_key(k_)] = (v_.split("(")[0].lstrip("!"), dump_items(v_[v_.find("("):]))
                gm = dict((graph_key(k_), graph_val(v_)) for k_, v_ in facts.items())
                if dm != gm:
                    only_d = sorted(set(dm.items()) - set(gm.items()), key=repr)[:3]
                    only_g = sorted(set(gm.items()) - set(dm.items()), key=repr)[:3]
                    bad_fact = "node %d %s: the dump and the analysed facts differ: only in the dump %s / only in the graph %s" % (i, fld, only_d, only_g)
                    break
            if bad_fact:
                failing.append(dict(files=f, base=b, kind=tag, why=bad_fact))
                break
            # every edge and both live sets: the dump's lists against the analysed graph (read by pointer identity in the harness,
            # not through the dump's own look-ups - round 9: edges into rewritten returns were looked up by a stale hash and lost)
            bad_edge = None
            for fld, have in (("nexts", sorted(g["nodes"][i].nexts)), ("prevs", sorted(g["nodes"][i].prevs)),
                              ("li", [r_ for r_ in range(32) if (g["nodes"][i].li >> r_) & 1]), ("lo", [r_ for r_ in range(32) if (g["nodes"][i].lo >> r_) & 1])):
                fm = re.search(r" %s=\[([^\]]*)\]" % fld, node_txt)
                if not fm:
                    continue
                dumped_l = sorted(int(z[1:]) for z in fm.group(1).split(",") if z)
                if dumped_l != have:
                    bad_edge = "node %d: the dump has %s = %s, the analysed graph has %s" % (i, fld, dumped_l, have)
                    break
            if bad_edge:
                failing.append(dict(files=f, base=b, kind=tag, why=bad_edge))
                break
            want = sorted((g["funcs"][fid]["entry"], g["funcs"][fid]["exit"]) for fid in g["nodes"][i].funcs if fid < len(g["funcs"]))
            if len(e) != len(x) or sorted(zip(e, x)) != want:
                failing.append(dict(files=f, base=b, kind=tag, why="node %d: the dump pairs entries %s with exits %s, its functions are (entry, exit) = %s" % (i, e, x, want)))
                break
    for (f, b, tag), a, m, r in zip(stores, impl, model, raw):
        if a in ("TIMEOUT", "CRASH"):
            continue
        for k in re.findall(r"!(\w+)\(", a):
            kinds[k] = kinds.get(k, 0) + 1
        for k in re.findall(r"s(115\.111|99\.115\.114\.111|99\.115\.114)\.", a):
            kinds["memloc:" + lib.dec(k)] = kinds.get("memloc:" + lib.dec(k), 0) + 1
        if canon(a) != canon(m):
            dis.append(dict(stage="yaml", files=f, first_difference=pipe.first_diff(canon(a), canon(m))))
        if "RT=different" in r or "RT=unloadable" in r or r == "PANIC":
            failing.append(dict(files=f, base=b, kind=tag, why="the dump does not survive write -> load -> write: %s" % re.findall(r"RT=\w+|PANIC", r)))
    ctx.coverage.update(
        evaluations=2 * len(stores), distinct_nontrivial=len(stores),
        rule="for every program (corpus incl. CSR/handler, stack, address programs + generated) the finished graph is wrapped "
             "(CfgWrapper), every node's analysis fields are serialised with serde_yaml::to_value and compared with the model's "
             "tree; the whole dump is written to YAML text, loaded and dumped again; distinct = distinct programs",
        samples=[dict(files=stores[i][0], yaml=impl[i][:400]) for i in (4, 40)],
        value_kinds_seen=kinds, correspondence_disagreements=len(dis), oracle_failures=len(failing), exhaustive=False)
    if failing:
        lib.violation(ctx, "dump", dict(property="C19", input=failing[0], all_failing=failing[:10]), True)
        return
    if dis or not proof_ok:
        common.broken_without_input(ctx, "correspondence of the dump's data layer" if dis else "theorems of Props/C19.v",
                                    dict(disagreements=dis[:8], proof=ctx.proof["failed"]))


replay = generic.replay
