"""C18 - all output channels report the same diagnostics, well-formed and ordered.
Theorems: Props/C18.v (kind table, excerpt exactness, order kept by the file filter, channels are functions of
the same fields).  Tie: the items `RVParser::run` returns (library entry point, in-memory reader) are rendered by
the extracted printer model and compared byte for byte with what the `rva` binary prints for the same files on
disk in the pretty and compact modes, with and without --all-files; the JSON output is parsed and compared
field by field.  Oracles on the implementation alone: every channel is parsed back and must list the same
(severity, title, file, line, columns) in the same order; the excerpt must show the reported line with the
carets under the reported columns; the JSON must have the documented shape."""
import json, os, re, shutil, subprocess
import lib, gen, pipe
from props import common, generic
from props.C06 import build_rva
from props.C10 import write_files

ITEM = re.compile(r"D\((\S+) (\S+) (\S+) (\S+) @(\d+)\.(\d+)\.(\d+)-(\d+)\.(\d+)\.(\d+)/(\S+) rel=[^)]*\)")
COMPACT = re.compile(r"^(Error|Warning|Info|Hint): (.*) in (.*) at (\d+) (\d+):(\d+)$")
SEVMAP = {"Error": "Error", "Warning": "Warning", "Information": "Info", "Hint": "Hint"}
WS = set([9, 10, 11, 12, 13, 32, 133, 160, 5760, 8232, 8233, 8239, 8287, 12288] + list(range(8192, 8203)))


def lib_items(line):
    m = lib.re.search(r"R\[([^\]]*)\]", line) if hasattr(lib, "re") else re.search(r"R\[([^\]]*)\]", line)
    if not m:
        return None
    out = []
    for x in ITEM.finditer(m.group(1)):
        sev, title, desc, ldesc, sl, sc, sr, el, ec, er, fn = x.groups()
        out.append(dict(sev=SEVMAP[sev], title=lib.dec(title), desc=lib.dec(desc), file=None if fn == "-" else lib.dec(fn),
                        r=tuple(int(v) for v in (sl, sc, sr, el, ec, er))))
    return out


def parse_pretty(text):
    """-> list of (sev, title, path, shown_line_no or None, source or None, marker or None), counter line or None"""
    lines = text.split("\n")
    items, counter, i = [], None, 0
    while i < len(lines):
        l = lines[i]
        m = re.match(r"^(Error|Warning|Info|Hint): (.*)$", l)
        if m and i + 1 < len(lines) and lines[i + 1].startswith(" in file: "):
            path = lines[i + 1][len(" in file: "):]
            i += 2
            shown = src = marker = None
            if i + 2 < len(lines) and re.match(r"^ +\|$", lines[i]) and re.match(r"^ (\d+) \| ", lines[i + 1] + " "):
                mm = re.match(r"^ (\d+) \| ?(.*)$", lines[i + 1])
                shown, src = int(mm.group(1)), mm.group(2)
                mk = re.match(r"^ +\| ?(.*)$", lines[i + 2])
                marker = mk.group(1) if mk else None
                # the three rows of an excerpt share one gutter: the bars are in one column
                bars = [lines[i].index("|"), lines[i + 1].index("|"), lines[i + 2].index("|") if "|" in lines[i + 2] else -1]
                if len(set(bars)) != 1:
                    marker = "\x00misaligned gutter: bars in columns %s" % bars
                i += 3
            items.append((m.group(1), m.group(2), path, shown, src, marker))
            if i < len(lines) and lines[i] == "":
                i += 1
            continue
        if "found in other files" in l:
            counter = l
        i += 1
    return items, counter


def line_boundary_stores():
    """diagnostics on the lines where the printed line number gains a digit (9/10/11, 99/100/101, 999/1000/1001) and on the
    first lines, in files with LF and with CRLF line ends (round 8: a gutter computed from the zero-based line; an excerpt
    split at carriage returns): the excerpt must show THAT line, with the marker under the reported columns"""
    out = []
    for n in (1, 2, 3, 9, 10, 11, 99, 100, 101, 999, 1000, 1001):
        for nl in ("\n", "\r\n"):
            head = [] if n == 1 else ["main:"] + ["    # pad %d" % i for i in range(n - 2)]
            lines = head + ["    li t0, 5", "  addi zero, a0, 1", "    li a7, 10", "    ecall"]
            out.append((pipe.single(nl.join(lines) + nl), "a.s", "lineno"))
    return out


def run(ctx):
    proof_ok, can_run = common.prepare(ctx, "C18")
    ok_d, log_d, rva = build_rva(False)
    if not (can_run and ok_d):
        common.broken_without_input(ctx, "build", (ctx.notes[-1] if ctx.notes else "") + log_d)
        return
    k = ctx.scale(4)
    rng = ctx.rng
    stores = generic.stores_for(ctx, dict(injected=40, flow=25, random=25, mutated=40, conforming=5, stoptree=24))
    for _ in range(60 * k):
        f, b = gen.det_prog(rng)
        stores.append((f, b, "det"))
    for _ in range(30 * k):      # include trees without faults, diagnostics in several files, tabs / CRLF / unicode in lines
        n = rng.randrange(2, 4)
        names = ["f%d.s" % i for i in range(n)]
        files = []
        for i, nm in enumerate(names):
            body = gen.mutated_text(rng, gen.render(rng, gen.program(rng, rng.randrange(2, 8)), dict(crlf=rng.random() < 0.2)))
            incs = "".join('.include "%s"\n' % x for x in names[i + 1:i + 2])
            files.append((nm, incs + body if rng.random() < 0.5 else body + "\n" + incs))
        stores.append((files, names[0], "includes"))
    for t in ['main:\n\tli t0, 5    foo\n', ' li t9, 5\n li 　 t0 $\n', 'main:\n li t0, 5 # 　　\n addi zero, t0, 1 # é\n',
              "\t\t.word 1 '中\n", ' \t  main: frob\n', "main:\r\n\taddi zero, a0, 1\r\n\tfrob x\r\n", "main: addi zero, a0, 1", "\n\n\n   \t addi zero,a0,1   \t\n"]:
        stores.append((pipe.single(t), "a.s", "printer"))
    stores += line_boundary_stores()
    # items from the library entry point
    runs = lib.run_impl(ctx, [lib.store_cmd("repeat 1", f, b) for f, b, _ in stores], limit_ms=6000, tag="items")
    work = os.path.join(ctx.rundir, "cli")
    shutil.rmtree(work, ignore_errors=True)
    os.makedirs(work)
    modes = [("json", ["--json"]), ("compact", ["--compact", "--no-color"]), ("pretty", ["--no-color"]),
             ("compact-all", ["--compact", "--no-color", "--all-files"]), ("pretty-all", ["--no-color", "--all-files"]),
             ("json-all", ["--json", "--all-files"]), ("pretty-default", [])]
    failing, dis, model_cmds, model_ref, cli_runs, compared = [], [], [], [], 0, 0
    for ci, ((files, base, tag), line) in enumerate(zip(stores, runs)):
        items = lib_items(line)
        if items is None or any(t is None for _, t in files) or base not in dict(files):
            continue
        d = os.path.join(work, "c%d" % ci)
        os.makedirs(d)
        try:
            write_files(d, files)
        except (UnicodeEncodeError, OSError):
            continue
        disk = {p: os.path.realpath(os.path.join(d, p)) for p, _ in files}
        texts = dict(files)
        outs = {}
        bad = False
        for name, mode in modes:
            try:
                p = subprocess.run([rva, "lint"] + mode + [os.path.join(d, base)], stdout=subprocess.PIPE, stderr=subprocess.PIPE, timeout=10)
            except subprocess.TimeoutExpired:
                bad = True
                break
            cli_runs += 1
            if p.returncode != 0:
                failing.append(dict(files=files, base=base, kind=tag, mode=mode, why="rva exits with %d: %s" % (p.returncode, p.stderr.decode("utf-8", "replace")[-300:])))
                bad = True
                break
            outs[name] = p.stdout.decode("utf-8", "replace")
        if bad:
            continue
        inp = dict(files=files, base=base, kind=tag)
        # ---- the library items, as the CLI names files --------------------------------------------
        want = [dict(it, path=disk.get(it["file"], it["file"]) if it["file"] is not None else None) for it in items]
        # ---- JSON: valid, documented shape, same items in the same order ----------------------------
        try:
            js = json.loads(outs["json"])
            assert list(js.keys()) == ["diagnostics"]
            jd = js["diagnostics"]
            for x in jd:
                assert sorted(x.keys()) == ["description", "file", "level", "range", "title"], x.keys()
                assert sorted(x["range"].keys()) == ["end", "start"] and all(sorted(x["range"][e].keys()) == ["column", "line", "raw"] for e in ("start", "end"))
                assert x["level"] in ("Error", "Warning", "Info", "Hint") and isinstance(x["title"], str) and x["title"] != ""
        except (ValueError, AssertionError, KeyError, TypeError) as e:
            failing.append(dict(inp, mode="--json", why="the JSON output is not valid JSON of the documented shape: %r" % (e,), output=outs["json"][:600]))
            continue
        if outs["json"] != outs["json-all"]:
            failing.append(dict(inp, why="--json and --json --all-files differ"))
            continue
        def norm(t):
            # the two readers describe their own faults (MemReader: not found / injected; the CLI: the OS error text)
            return "<reader fault>" if t.startswith(("IO Error:", "File not found:", "Unexpected error")) else t
        for x in jd:
            x["raw_title"] = x["title"]
            x["title"] = norm(x["title"])
        for w in want:
            w["title"] = norm(w["title"])
        jf = [(x["level"], x["title"], x["file"], x["range"]["start"]["line"], x["range"]["start"]["column"], x["range"]["end"]["column"]) for x in jd]
        lf = [(w["sev"], w["title"], w["path"], w["r"][0], w["r"][1], w["r"][4]) for w in want]
        if jf != lf:
            i = next((i for i, (a, b) in enumerate(zip(jf, lf)) if a != b), min(len(jf), len(lf)))
            failing.append(dict(inp, why="rva lint --json and the library entry point RVParser::run disagree at item %d: %s / %s (%d vs %d items)" % (
                i, jf[i] if i < len(jf) else "-", lf[i] if i < len(lf) else "-", len(jf), len(lf))))
            continue
        jraw = [("" if x["title"] == "<reader fault>" else x["description"], x["range"]["start"]["raw"], x["range"]["end"]["raw"], x["range"]["end"]["line"]) for x in jd]
        lraw = [("" if w["title"] == "<reader fault>" else w["desc"], w["r"][2], w["r"][5], w["r"][3]) for w in want]
        if jraw != lraw:
            failing.append(dict(inp, why="JSON description/raw offsets differ from the library items"))
            continue
        # ---- sorted by position within each file, files grouped ------------------------------------
        seen_files, okorder = [], True
        for a, b in zip(jf, jf[1:]):
            if a[2] == b[2] and (jd[jf.index(a)]["range"]["start"]["raw"] > jd[jf.index(b)]["range"]["start"]["raw"]):
                okorder = False
        groups = [x[2] for x in jf]
        dedup = [g for i, g in enumerate(groups) if i == 0 or groups[i - 1] != g]
        if not okorder or len(dedup) != len(set(dedup)):
            failing.append(dict(inp, why="diagnostics are not sorted by position within each file / files not grouped", order=[(x[2], x[3], x[4]) for x in jf][:20]))
            continue
        base_path = disk[base]
        for allf in (False, True):
            vis = [x for x in jf if allf or x[2] == base_path or x[2] is None and False]
            # items without a file (nil uuid) are not the base file: hidden unless --all-files
            hidden = len(jf) - len(vis)
            # ---- compact ------------------------------------------------------------------------
            txt = outs["compact-all" if allf else "compact"]
            cl = [l for l in txt.split("\n") if l]
            got, counter = [], None
            for l in cl:
                m = COMPACT.match(l)
                if m:
                    got.append((m.group(1), norm(m.group(2)), m.group(3), int(m.group(4)) - 1, int(m.group(5)) - 1, int(m.group(6)) - 1))
                elif "found in other files" in l:
                    counter = l
                else:
                    got.append(("?", l))
            exp = [(x[0], x[1], x[2] if x[2] is not None else "<unknown file>", x[3], x[4], x[5]) for x in vis]
            if got != exp:
                failing.append(dict(inp, mode="compact" + ("-all" if allf else ""), why="the compact output does not list the same diagnostics as the JSON output: %s / %s" % (
                    [g for g, e in zip(got, exp) if g != e][:1] or len(got), [e for g, e in zip(got, exp) if g != e][:1] or len(exp))))
                break
            wantc = None if hidden == 0 else "%d diagnostic%s found in other files. To see all errors, run with the `--all-files` option." % (hidden, "s" if hidden > 1 else "")
            if counter != wantc:
                failing.append(dict(inp, mode="compact", why="other-files counter is %r, expected %r" % (counter, wantc)))
                break
            # ---- pretty -------------------------------------------------------------------------
            pit, pcounter = parse_pretty(outs["pretty-all" if allf else "pretty"])
            if [(a, norm(b), c) for a, b, c, _, _, _ in pit] != [(e[0], e[1], e[2]) for e in exp] or pcounter != wantc:
                failing.append(dict(inp, mode="pretty" + ("-all" if allf else ""), why="the pretty output does not list the same diagnostics as the JSON output (or the counter differs)",
                                    pretty=[(a, b, c) for a, b, c, _, _, _ in pit][:6], json=[(e[0], e[1], e[2]) for e in exp][:6]))
                break
            # ---- excerpt: the reported line, carets under the reported columns ---------------------
            bad = None
            for (sev, title, path, shown, src, marker), e in zip(pit, exp):
                name = next((p for p, dp in disk.items() if dp == path), None)
                if name is None:
                    continue
                flines = texts[name].split("\n")
                if e[3] >= len(flines):
                    if shown is not None:
                        bad = "an excerpt is shown for line %d which the file does not have" % (e[3] + 1)
                    continue
                raw = flines[e[3]]
                if shown is None:
                    bad = "no excerpt for %s at line %d" % (title, e[3] + 1)
                    break
                if shown != e[3] + 1 or src != raw.strip("".join(chr(c) for c in WS)):
                    bad = "the excerpt shows line %r %r, the diagnostic refers to line %d %r" % (shown, src, e[3] + 1, raw)
                    break
                if marker is not None and marker.startswith("\x00"):
                    bad = "line %d: %s" % (e[3] + 1, marker[1:])
                    break
                if e[4] > len(raw):
                    bad = "the diagnostic %r reports columns %d-%d of line %d, which has only %d characters: the marker is under nothing" % (title, e[4] + 1, e[5] + 1, e[3] + 1, len(raw))
                    break
                if title.startswith("Labels not defined: ") and raw[e[4]:e[5] + 1] not in [n.strip() for n in title.split(": ", 1)[1].split(",")]:
                    bad = "%r is shown with the marker under %r (line %d of %s): not one of the labels it is about" % (title, raw[e[4]:e[5] + 1], e[3] + 1, name)
                    break
                fnw = next((i for i, c in enumerate(raw) if ord(c) not in WS), 0)
                carets = [i + fnw for i, c in enumerate(marker or "") if c == "^"]
                wantcar = list(range(e[4], e[5] + 1))
                if e[4] >= fnw and e[5] < len(raw) and e[3] == jd[jf.index((e[0], e[1], e[2] if e[2] != "<unknown file>" else None, e[3], e[4], e[5]))]["range"]["end"]["line"]:
                    if carets != wantcar or any(c not in " \t^" and ord(c) not in WS for c in (marker or "")):
                        bad = "the marker is under columns %s, the diagnostic reports columns %s (line %r, marker %r)" % (carets[:1] + carets[-1:], wantcar[:1] + wantcar[-1:], raw, marker)
                        break
            if bad:
                failing.append(dict(inp, mode="pretty", why=bad))
                break
        else:
            if outs["pretty-default"] != outs["pretty"]:
                failing.append(dict(inp, why="output without --no-color differs from --no-color although stdout is not a terminal"))
            # ---- correspondence: the printer model renders the library items ---------------------------
            for compact in (0, 1):
                for allf in (0, 1):
                    parts = ["print", str(compact), str(allf), "1", str(len(want))]
                    for w, x in zip(want, jd):
                        name = w["file"]
                        parts += [w["sev"], lib.enc(x["raw_title"] if w["title"] == "<reader fault>" else w["title"]), lib.enc(w["desc"]), "~" if w["path"] is None else lib.enc(w["path"]),
                                  "~" if name not in texts else lib.enc(texts[name]), "1" if name == base else "0"] + [str(v) for v in w["r"]]
                    model_cmds.append(" ".join(parts))
                    model_ref.append((inp, compact, allf, outs[("compact" if compact else "pretty") + ("-all" if allf else "")]))
        compared += 1
    model_out = lib.run_model(ctx, model_cmds, tag="print")
    for (inp, compact, allf, real), m in zip(model_ref, model_out):
        try:
            txt = lib.dec(m)
        except ValueError:
            txt = m
        if txt != real:
            i = next((i for i, (a, b) in enumerate(zip(txt, real)) if a != b), min(len(txt), len(real)))
            dis.append(dict(inp, compact=compact, all_files=allf, why="printer model and rva output differ at char %d: model %r / rva %r" % (i, txt[max(0, i - 40):i + 40], real[max(0, i - 40):i + 40])))
    tags = {}
    for _, _, t in stores:
        tags[t.split(":")[0]] = tags.get(t.split(":")[0], 0) + 1
    ctx.coverage.update(
        evaluations=cli_runs + len(model_cmds), distinct_nontrivial=len(set(str(f) for f, _, _ in stores)),
        rule="each program (corpus, generated, include trees, lines with tabs/CRLF/multi-byte white space) is linted through RVParser::run (in-memory) "
             "and by rva in 7 mode combinations on disk; JSON parsed and checked for shape; JSON, compact and pretty parsed back and compared "
             "with each other and with the library items (order included); excerpt line/carets checked against the file text; the extracted "
             "printer model renders the library items and is compared byte for byte with rva's pretty/compact output; distinct = distinct programs",
        samples=[dict(kind=t, files=f) for f, _, t in stores[-2:]], input_classes=tags, programs_compared=compared, cli_runs=cli_runs,
        printer_model_renderings=len(model_cmds), correspondence_disagreements=len(dis), oracle_failures=len(failing), exhaustive=False)
    if failing:
        lib.violation(ctx, "input", dict(property="C18", input=failing[0], all_failing=failing[:10]), True)
        return
    if dis or not proof_ok:
        common.broken_without_input(ctx, "correspondence of the printer model" if dis else "theorems of Props/C18.v",
                                    dict(disagreements=dis[:8], proof=ctx.proof["failed"] if ctx.proof else None))


replay = generic.replay
