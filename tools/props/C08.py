"""C08 - decoding, pseudo-expansion and constant folding follow RV32IM.
Theorems: Props/C08.v.  Tie: MathOp::operate (debug + release) against the extracted model on a
boundary grid squared plus random pairs; the spec value comes from the extracted FoldSpec.eval."""
import re, random
import lib, asm_manual, interp
from props import common

_NODE = re.compile(r"N\((\w+) ([^|]*?) \| [^)]*\)")


def nodes_of(line):
    out = []
    for m in _NODE.finditer(line):
        k = m.group(1)
        if k in ("progentry", "funcentry"):
            continue
        fs = [f.split("@")[0] for f in m.group(2).split()]
        if k in ("branch", "jumplink", "loadaddr"):
            fs[-1] = lib.dec(fs[-1])
        out.append((k, fs))
    return out


def decode_check(ctx):
    """every mnemonic x operand form of the assembly manual (tools/asm_manual.py): the nodes built by the
    implementation must have the manual's architectural effect on every sampled register file; and the
    model must build the same nodes (correspondence)."""
    forms = asm_manual.forms(ctx.rng)
    cmds = [lib.store_cmd("parse", [("a.s", t + "\n")], "a.s") for t, _ in forms]
    impl = lib.run_impl(ctx, cmds, tag="dec-impl")
    model = lib.run_model(ctx, cmds, tag="dec-model")
    states = []
    for k in range(6):
        rg = [ctx.rng.choice([0, 1, -1, 2 ** 31 - 1, -2 ** 31, ctx.rng.randrange(-2 ** 31, 2 ** 31)]) for _ in range(32)]
        rg[0] = 0
        states.append(rg)
    states.append([0] + [ctx.rng.randrange(-2 ** 31, 2 ** 31)] * 31)
    bad, dis = [], []
    for (text, exp), a, b in zip(forms, impl, model):
        if a != b:
            dis.append(dict(text=text, impl=a, model=b))
        if "E(" in a or a.startswith(("PANIC", "TIMEOUT", "CRASH")):
            bad.append(dict(text=text, impl=a, why="a form of the assembly manual is rejected"))
            continue
        try:
            ns = nodes_of(a)
            for rg in states:
                want = [e for e in exp(rg) if not (e[0] == "reg" and e[1] == 0)]
                got = asm_manual.effect_of_nodes(ns, rg)
                if want != got:
                    bad.append(dict(text=text, impl=a, registers={asm_manual.ABI[i]: v for i, v in enumerate(rg)},
                                    manual_effect=repr(want), decoded_effect=repr(got),
                                    why="the decoded nodes do not have the effect the manual gives this line"))
                    break
        except Exception as e:  # an unparsable dump is a disagreement, not silence
            bad.append(dict(text=text, impl=a, why="decode oracle could not read the nodes: %r" % e))
    return forms, bad, dis

OPS = ["add", "and", "or", "sll", "slt", "sltu", "sra", "srl", "sub", "xor",
       "mul", "mulh", "mulhsu", "mulhu", "div", "divu", "rem", "remu"]


def grid():
    g = set([0, 1, -1, 2, -2, 3, 5, 7, 31, 32, 33, 63, 64, 65, 255, 256, 4095, 4096, 46340, 46341, 65535, 65536])
    for k in range(0, 32):
        for d in (-1, 0, 1):
            for sgn in (1, -1):
                g.add(sgn * (2 ** k) + d)
    g |= set([2 ** 31 - 1, -2 ** 31, -2 ** 31 + 1, 2 ** 31 - 2])
    return sorted(v for v in g if -2 ** 31 <= v < 2 ** 31)


def fold_cases(ctx):
    g = grid()
    pairs = [(x, y) for x in g for y in g] if ctx.thorough() else []
    if not ctx.thorough():
        small = [v for v in g if abs(v) <= 65 or abs(v) >= 2 ** 30 or v in (2 ** 15, 2 ** 16, 46341, 65535)]
        pairs = [(x, y) for x in small for y in small]
    for _ in range(20000 if ctx.thorough() else 1500):
        pairs.append((ctx.rng.randrange(-2 ** 31, 2 ** 31), ctx.rng.randrange(-2 ** 31, 2 ** 31)))
        pairs.append((ctx.rng.randrange(-2 ** 31, 2 ** 31), ctx.rng.choice(g)))
    cmds = []
    for i, (x, y) in enumerate(pairs):
        if ctx.thorough() or i < 4000:
            for o in OPS:
                cmds.append("op %s %d %d" % (o, x, y))
        else:
            cmds.append("op %s %d %d" % (OPS[i % len(OPS)], x, y))
    return cmds


def reads_check(ctx):
    """which registers a decoded line READS (round 8: `csrrw rd, csr, rs1` said to read rd instead of rs1).  The read set
    is observed through liveness: in `main: <line> ; li a7, 10 ; ecall` (with `lbl:` in front of a second exit) the
    registers live into the line are its reads plus what is live behind it and not written.  Judged against the manual:
    (a) every register whose VALUE changes the line's architectural effect on some sampled register file must be live in;
    (b) nothing is live in that is neither live behind the line nor named in the line; (c) for CSR lines the set is exact:
    the source register of the register forms (unless x0), nothing for the immediate forms."""
    rng = random.Random(ctx.seed * 31 + 8)
    forms = asm_manual.forms(rng)
    keep = []
    for text, exp in forms:
        try:
            e0 = exp([0] * 32)
        except Exception:
            continue
        if all(e[0] in ("reg", "load", "store", "csr", "csri", "branch") for e in e0):
            keep.append((text, exp))
    progs = ["main:\n%s\nli a7, 10\necall\nlbl:\nli a7, 10\necall\n" % t for t, _ in keep]
    impl = lib.run_impl(ctx, [lib.store_cmd("cfg live -", [("a.s", p_)], "a.s") for p_ in progs], tag="reads")
    bad, checked = [], 0
    import dump
    states = [[0] + [rng.choice([0, 1, -1, 7, 2 ** 31 - 1, -2 ** 31, rng.randrange(-2 ** 31, 2 ** 31)]) for _ in range(31)] for _ in range(5)]
    for (text, exp), prog, line in zip(keep, progs, impl):
        g = dump.parse(lib._PICKS.sub("", line))
        if g is None:
            continue
        ns = g["nodes"]
        first = next((n for n in ns if n.kind not in ("progentry", "funcentry")), None)
        nxt = [n for n in ns if n.kind == "iarith" and dump.val(n.body[2]) == "17"]
        if first is None or not nxt:
            continue
        behind = 0
        for n in nxt:
            behind |= n.li
        sem = set()
        for r in range(1, 32):
            for rg in states:
                alt = list(rg)
                alt[r] = rg[r] ^ 0x55 if rg[r] ^ 0x55 != rg[r] else rg[r] + 1
                alt[r] = interp.s32(alt[r])
                if exp(rg) != exp(alt):
                    sem.add(r)
                    break
        e0 = exp(states[0])
        named = set()
        for tok in re.findall(r"[A-Za-z_][A-Za-z0-9_]*", text):
            if tok.lower() in asm_manual.ABI:
                named.add(asm_manual.ABI.index(tok.lower()))
            elif re.fullmatch(r"x([0-9]|[12][0-9]|3[01])", tok.lower()):
                named.add(int(tok[1:]))
        live = set(r for r in range(32) if (first.li >> r) & 1)
        why = None
        miss = sorted(r for r in sem if r not in live)
        extra = sorted(r for r in live if r not in named and not ((behind >> r) & 1))
        if miss:
            why = "the value of %s changes what `%s` does, but the line is not said to read it (live in: %s)" % (
                [asm_manual.ABI[r] for r in miss], text, [asm_manual.ABI[r] for r in sorted(live)])
        elif extra:
            why = "`%s` is said to read %s, which it does not name" % (text, [asm_manual.ABI[r] for r in extra])
        elif e0 and e0[0][0] in ("csr", "csri"):
            rd_ = e0[0][2]
            want = (set(r for r in range(32) if (behind >> r) & 1) - ({rd_} - {0})) | ({e0[0][4]} - {0} if e0[0][0] == "csr" else set())
            if live != want:
                why = "`%s` reads exactly %s; live into it: %s, expected %s" % (
                    text, [asm_manual.ABI[r] for r in sorted(({e0[0][4]} - {0}) if e0[0][0] == "csr" else set())],
                    [asm_manual.ABI[r] for r in sorted(live)], [asm_manual.ABI[r] for r in sorted(want)])
        checked += 1
        if why:
            bad.append(dict(profile="debug", cmd="reads " + text, program=prog, impl=line[:400], why=why))
    return checked, bad


def run(ctx):
    proof_ok, can_run = common.prepare(ctx, "C08+C08sem+C08sem2", release=True)
    if not can_run:
        common.broken_without_input(ctx, "build", ctx.notes[-1] if ctx.notes else "")
        return
    cmds = fold_cases(ctx)
    model = lib.run_model(ctx, cmds)
    spec = lib.run_model(ctx, ["opspec" + c[2:] for c in cmds], tag="spec")
    disagreements, failing = [], []
    evaluations = 0
    for prof in ("debug", "release"):
        impl = lib.run_impl(ctx, cmds, release=(prof == "release"), tag="impl-" + prof)
        evaluations += len(cmds)
        for c, a, b, sp in zip(cmds, impl, model, spec):
            if a != b:
                disagreements.append(dict(profile=prof, cmd=c, impl=a, model=b))
            if a != sp:
                failing.append(dict(profile=prof, cmd=c, impl=a, rv32im=sp,
                                    why="MathOp::operate differs from the ISA result"))
    # the mnemonic -> operator table of the value analysis (Inst::math_op / scalar_op) against the model and the manual
    mn = sorted(set(asm_manual.R_OPS) | set(asm_manual.I_OPS) | set(asm_manual.LOADS) | set(asm_manual.STORES) | set(asm_manual.BR) |
                set(["lui", "auipc", "jal", "jalr", "ecall", "ebreak", "fence", "mv", "li", "la", "nop", "neg", "not", "seqz", "snez", "ret", "call",
                     "addw", "subw", "divw", "remw", "remuw", "divuw", "mulw", "sllw", "addiw", "csrrw", "csrrs", "uret", "frob"]))
    mn += [m.upper() for m in mn[:12]]
    icmds = ["instop " + lib.enc(m) for m in mn]
    ii, im = lib.run_impl(ctx, icmds, tag="instop-impl"), lib.run_model(ctx, icmds, tag="instop-model")
    evaluations += len(icmds)
    for m, a, b in zip(mn, ii, im):
        if a != b:
            disagreements.append(dict(profile="debug", cmd="instop " + m, impl=a, model=b))
        want = m.lower() if m.lower() in asm_manual.R_OPS else asm_manual.I_OPS.get(m.lower())
        if want is not None and a.split(" ")[0] != want:
            failing.append(dict(profile="debug", cmd="instop " + m, impl=a, rv32im=want,
                                why="the value analysis folds mnemonic %r with operator %r, the manual says %r" % (m, a.split(" ")[0], want)))
    # folding THROUGH the pipeline: straight-line programs on known constants; every constant the value analysis claims is
    # compared with a concrete RV32IM run (covers the per-mnemonic shortcuts outside MathOp::operate, e.g. sources that are x0)
    import random, gen, pipe, dump
    fprogs = [gen.fold_prog(ctx.rng) for _ in range(120 * ctx.scale(5))]
    fout = lib.run_impl(ctx, [lib.store_cmd("cfg live -", pipe.single(t), "a.s") for t in fprogs], tag="foldprog")
    evaluations += len(fprogs)
    for t, line in zip(fprogs, fout):
        g = dump.parse(lib._PICKS.sub("", line))
        if g is None:
            continue
        findings, _e, _x = interp.run_graph(g, random.Random(ctx.seed + len(line)), runs=1)
        if findings:
            failing.append(dict(profile="debug", cmd="fold program", program=t, why="a folded constant is not the RV32IM result: %s" % findings[0], impl=line[:300]))
    # the control transfer of every jump and branch form: the node's successors in the graph are the target the text names
    # (and the next instruction where the manual lets execution continue there)
    regs = ["zero", "x0", "ra", "x1", "t0", "x5", "t1", "s1", "a0", "a5", "t6", "sp"]
    tforms = [("j T", "jump"), ("b T", "jump"), ("jal x0, T", "jump"), ("jal zero, T", "jump"), ("J T", "jump"), ("JAL x0, T", "jump")]
    tforms += [("jal %s, T" % r, "link") for r in regs if r not in ("zero", "x0", "ra", "x1")]
    for m in ["beq", "bne", "blt", "bge", "bltu", "bgeu", "bgt", "ble", "bgtu", "bleu"]:
        for _ in range(3):
            tforms.append(("%s %s, %s, T" % (m, ctx.rng.choice(regs), ctx.rng.choice(regs)), "branch"))
    for m in ["beqz", "bnez", "bltz", "bgez", "bgtz", "blez"]:
        for _ in range(2):
            tforms.append(("%s %s, T" % (m, ctx.rng.choice(regs)), "branch"))
    tprogs = []
    for t, kind in tforms:
        back = ctx.rng.random() < 0.3        # the target may lie before the instruction
        if back:
            tprogs.append(("main:\n li a0, 1\nT:\n addi a0, a0, 1\n %s\n addi a0, a0, 2\n li a7, 10\n ecall\n" % t, 3, 2, 4))
        else:
            tprogs.append(("main:\n li a0, 1\n %s\n addi a0, a0, 1\nT:\n li a7, 10\n ecall\n" % t, 2, 4, 3))
    tout = lib.run_impl(ctx, [lib.store_cmd("cfg dir -", pipe.single(p[0]), "a.s") for p in tprogs], tag="transfer")
    tmod = lib.run_model(ctx, [lib.store_cmd("cfg dir -", pipe.single(p[0]), "a.s") for p in tprogs], tag="transfer-model")
    evaluations += len(tprogs)
    for (t, kind), (prog, at, tgt, fall), line, ml in zip(tforms, tprogs, tout, tmod):
        if lib._PICKS.sub("", line) != lib._PICKS.sub("", ml):
            disagreements.append(dict(profile="debug", cmd="cfg dir: " + t, impl=line[:200], model=ml[:200]))
        mm = re.search(r"C\(%d N\([^|]*\|[^)]*\) L\[[^\]]*\] \w+ >\[([0-9,]*)\]" % at, line)
        if not mm:
            if not line.startswith("C("):
                failing.append(dict(profile="debug", cmd="transfer " + t, program=prog, impl=line[:300], why="the program with %r is not analysed" % t))
            continue
        nx = sorted(int(x) for x in mm.group(1).split(",") if x)
        want = {"jump": [[tgt]], "branch": [sorted([tgt, fall])], "link": [[tgt], sorted([tgt, fall])]}[kind]
        ops_ = [o.strip() for o in t.split(None, 1)[1].split(",")][:-1]
        if kind == "branch" and all(o in ("zero", "x0") for o in ops_):
            # zero compared with zero: the outcome is known, and the graph may (but need not) say so
            always = t.split()[0].lower() in ("beq", "bge", "bgeu", "ble", "bleu", "beqz", "bgez", "blez")
            want = want + [[tgt] if always else [fall]]
        if nx not in want:
            failing.append(dict(profile="debug", cmd="transfer " + t, program=prog, impl=line[:400],
                                why="%r transfers control to its label (node %d)%s; its successors in the graph are %s" % (
                                    t, tgt, "" if kind == "jump" else " or continues (node %d)" % fall, nx)))
    # which texts are a RETURN: exactly `jalr x0, 0(ra)` in any spelling (ret, jr ra, ...); with another offset, base or
    # link register the instruction is an indirect jump and must not be folded into the function's exit
    rforms = [("ret", True), ("jr ra", True), ("jalr x0, 0(ra)", True), ("jalr zero, ra, 0", True), ("jalr x0, (x1)", True), ("JALR x0, 0x0(ra)", True),
              ("jalr x0, 4(ra)", False), ("jalr zero, ra, 8", False), ("jalr x0, -4(x1)", False), ("jr t0", False), ("jalr x0, 0(t1)", False),
              ("jalr ra, 0(ra)", False), ("jalr t0, ra, 0", False), ("jalr ra", False), ("jalr x0, 2047(ra)", False)]
    rprogs = ["main:\n jal f\n li a7, 10\n ecall\nf:\n beqz a0, alt\n ret\nalt:\n %s\n" % t for t, _ in rforms]
    rout = lib.run_impl(ctx, [lib.store_cmd("cfg markup -", pipe.single(p_), "a.s") for p_ in rprogs], tag="retforms")
    rmod = lib.run_model(ctx, [lib.store_cmd("cfg markup -", pipe.single(p_), "a.s") for p_ in rprogs], tag="retforms-model")
    evaluations += len(rprogs)
    for (t, isret), prog, line, ml in zip(rforms, rprogs, rout, rmod):
        if lib._PICKS.sub("", line) != lib._PICKS.sub("", ml):
            disagreements.append(dict(profile="debug", cmd="cfg markup: " + t, impl=line[:200], model=ml[:200]))
        mm = re.search(r"C\(7 N\((\w+) ([^|]*)\|[^)]*\) L\[[^\]]*\] \w+ >\[([0-9,]*)\]", line)
        if not mm:
            if isret or not line.startswith("CE("):
                failing.append(dict(profile="debug", cmd="return " + t, program=prog, impl=line[:300], why="the program with %r is not analysed" % t))
            continue
        merged = mm.group(1) == "jumplink" and mm.group(3) == "6"
        if merged != isret:
            failing.append(dict(profile="debug", cmd="return " + t, program=prog, impl=line[:400],
                                why="%r is %s; the graph %s" % (t, "a return (jalr x0, 0(ra))" if isret else "not a return",
                                                                 "folds it into the function's exit" if merged else "does not treat it as one (node %s, successors [%s])" % (mm.group(1), mm.group(3)))))
    forms, dbad, ddis = decode_check(ctx)
    evaluations += len(forms)
    for d in dbad:
        failing.append(dict(profile="debug", cmd="parse " + d["text"], **d))
    for d in ddis:
        disagreements.append(dict(profile="debug", cmd="parse " + d["text"], **d))
    nreads, rbad = reads_check(ctx)
    evaluations += nreads
    failing += rbad
    ctx.coverage["read_sets_checked"] = nreads
    ctx.coverage["decode_forms"] = len(forms)
    ctx.coverage["decode_mnemonics"] = len(set(t.split()[0] for t, _ in forms))
    ctx.coverage.update(
        evaluations=evaluations, distinct_nontrivial=len(set(cmds)),
        rule="MathOp::operate on (boundary grid)^2 + random i32 pairs x 18 operators, debug and release builds, compared with the "
             "extracted model (correspondence) and with the extracted FoldSpec.eval (oracle); distinct = distinct (op,x,y)",
        samples=[dict(cmd=c, impl_and_model=m, spec=s) for c, m, s in list(zip(cmds, model, spec))[:5]],
        correspondence_disagreements=len(disagreements), exhaustive=False)
    if failing:
        f = failing[0]
        lib.violation(ctx, "decode" if f["cmd"].startswith("parse ") else ("reads" if f["cmd"].startswith("reads ") else "fold"), dict(property="C08", input=f, all_failing=failing[:20],
                                       how="echo '%s' > cmds; harness/target/%s/rva_harness cmds" % (f["cmd"], f["profile"])), True)
        return
    if disagreements or not proof_ok:
        what = "correspondence MathOp::operate vs Model/I32.v" if disagreements else "theorems of Props/C08.v"
        common.broken_without_input(ctx, what, dict(disagreements=disagreements[:20], proof=ctx.proof["failed"]))


def replay(ctx, path):
    import json
    print(json.dumps(json.load(open(path)), indent=1)[:2000])
    return 0
