"""Input generators (DESIGN.md 6).  Everything derives from the random.Random passed in."""

REGS_ABI = ["zero", "ra", "sp", "gp", "tp", "t0", "t1", "t2", "s0", "s1", "a0", "a1", "a2", "a3", "a4", "a5", "a6", "a7",
            "s2", "s3", "s4", "s5", "s6", "s7", "s8", "s9", "s10", "s11", "t3", "t4", "t5", "t6"]
TEMPS = ["t0", "t1", "t2", "t3", "t4", "t5", "t6"]
SAVED = ["s0", "s1", "s2", "s3", "s4", "s5", "s6", "s7", "s8", "s9", "s10", "s11"]
ARGS = ["a0", "a1", "a2", "a3", "a4", "a5", "a6", "a7"]

ARITH = ["add", "and", "or", "sll", "slt", "sltu", "sra", "srl", "sub", "xor", "mul", "mulh", "mulhsu", "mulhu",
         "div", "divu", "rem", "remu", "addw", "sllw", "sraw", "srlw", "divw", "remw", "remuw"]
IARITH = ["addi", "andi", "ori", "slli", "slti", "sltiu", "srai", "srli", "xori", "addiw", "slliw", "sraiw", "srliw"]
BRANCH = ["beq", "bne", "blt", "bge", "bltu", "bgeu", "bgt", "ble", "bgtu", "bleu"]
BRANCHZ = ["beqz", "bnez", "bltz", "bgez", "bgtz", "blez"]
LOADS = ["lb", "lbu", "lh", "lhu", "lw", "lwu"]
STORES = ["sb", "sh", "sw"]
UNARY = ["mv", "neg", "not", "seqz", "snez", "sltz", "sgtz"]
CSR = ["csrrw", "csrrs", "csrrc"]
CSRI = ["csrrwi", "csrrsi", "csrrci"]
CSRNAMES = ["ustatus", "uie", "utvec", "uscratch", "uepc", "ucause", "utval", "uip", "cycle", "time", "instret", "64", "0x41", "5"]
ALL_MNEMONICS = (ARITH + IARITH + BRANCH + BRANCHZ + LOADS + STORES + UNARY + CSR + CSRI +
                 ["ret", "ebreak", "ecall", "nop", "lui", "auipc", "jal", "jalr", "j", "jr", "la", "li", "b", "call", "sgez",
                  "fence", "fencei", "uret", "csrc", "csrr", "csrs", "csrw", "csrci", "csrsi", "csrwi"])
DIRECTIVES = [".align", ".ascii", ".asciz", ".byte", ".data", ".double", ".dword", ".endmacro", ".eqv", ".extern", ".float",
              ".global", ".globl", ".half", ".include", ".macro", ".section", ".space", ".string", ".text", ".word"]


def reg(rng, pool=None):
    r = rng.choice(pool or REGS_ABI)
    return r


def spell_reg(rng, r):
    if rng.random() < 0.25:
        return "x%d" % REGS_ABI.index(r)
    if r == "s0" and rng.random() < 0.2:
        return "fp"
    return r


def imm(rng, small=True):
    v = rng.choice([0, 1, -1, 2, 4, 8, -4, -8, 12, 16, -16, 10, 93, 5, 7, 100, 255, 2047, -2048]) if small or rng.random() < 0.7 \
        else rng.randrange(-2 ** 31, 2 ** 31)
    return v


def spell_imm(rng, v):
    k = rng.random()
    if k < 0.6:
        return str(v)
    if k < 0.8:
        return ("-" if v < 0 else "") + "0x%x" % abs(v)
    if k < 0.9:
        return ("-" if v < 0 else "") + "0b" + bin(abs(v))[2:]
    if 32 < v < 127 and chr(v) not in "'\\":
        return "'%s'" % chr(v)
    return str(v)


def label_name(rng, i=None):
    base = rng.choice(["loop", "end", "f", "g", "main", "L", "done", "skip", "fn", "data", "_x", "A", "B", "C"])
    return "%s%d" % (base, rng.randrange(20) if i is None else i)


def statement(rng, labels):
    """one instruction as (mnemonic, [operand strings]) over ABI names"""
    lab = rng.choice(labels) if labels else "L0"
    k = rng.random()
    if k < 0.18:
        return (rng.choice(ARITH[:18]), [reg(rng), reg(rng), reg(rng)])
    if k < 0.36:
        return (rng.choice(IARITH[:9]), [reg(rng), reg(rng), spell_imm(rng, imm(rng))])
    if k < 0.46:
        return ("li", [reg(rng), spell_imm(rng, imm(rng, False))])
    if k < 0.52:
        return (rng.choice(UNARY), [reg(rng), reg(rng)])
    if k < 0.60:
        m = rng.choice(LOADS)
        form = rng.random()
        off = spell_imm(rng, rng.choice([0, 4, 8, -4, -8, 12, 16, -12]))
        if form < 0.7:
            return (m, [reg(rng), "%s(%s)" % (off, reg(rng, ["sp", "sp", "t0", "a0", "s0"]))])
        if form < 0.8:
            return (m, [reg(rng), "(%s)" % reg(rng)])
        if form < 0.9:
            return (m, [reg(rng), lab])
        return (m, [reg(rng), off])
    if k < 0.68:
        m = rng.choice(STORES)
        form = rng.random()
        off = spell_imm(rng, rng.choice([0, 4, 8, -4, -8, 12, 16, -12]))
        if form < 0.75:
            return (m, [reg(rng), "%s(%s)" % (off, reg(rng, ["sp", "sp", "t0", "a0", "s0"]))])
        if form < 0.85:
            return (m, [reg(rng), "(%s)" % reg(rng)])
        if form < 0.95:
            return (m, [reg(rng), lab, reg(rng, TEMPS)])
        return (m, [reg(rng), off])
    if k < 0.76:
        if rng.random() < 0.6:
            return (rng.choice(BRANCH), [reg(rng), reg(rng), lab])
        return (rng.choice(BRANCHZ), [reg(rng), lab])
    if k < 0.82:
        return (rng.choice(["j", "jal", "call", "b"]), [lab]) if rng.random() < 0.8 else ("jal", [reg(rng, ["ra", "zero", "t0"]), lab])
    if k < 0.86:
        return ("ret", [])
    if k < 0.90:
        return ("ecall", [])
    if k < 0.93:
        return ("la", [reg(rng), lab])
    if k < 0.95:
        return ("lui", [reg(rng), spell_imm(rng, rng.choice([0, 1, 0x12345, 0xfffff, 0x80000]))])
    if k < 0.97:
        m = rng.choice(CSR + CSRI + ["csrr", "csrw", "csrs", "csrc", "csrwi", "csrsi", "csrci"])
        c = rng.choice(CSRNAMES)
        if m in CSR:
            return (m, [reg(rng), c, reg(rng)])
        if m in CSRI:
            return (m, [reg(rng), c, spell_imm(rng, rng.randrange(32))])
        if m == "csrr":
            return (m, [reg(rng), c])
        if m in ("csrw", "csrs", "csrc"):
            return (m, [reg(rng), c])
        return (m, [c, spell_imm(rng, rng.randrange(32))])
    if k < 0.985:
        return (rng.choice(["jr", "jalr"]), [reg(rng)])
    return (rng.choice(["nop", "ebreak", "uret", "fence", "sgez"]), [])


def directive(rng, labels):
    d = rng.choice([".data", ".text", ".word", ".byte", ".half", ".asciz", ".string", ".ascii", ".space", ".align",
                    ".globl", ".global", ".eqv", ".section", ".dword", ".float", ".double", ".extern"])
    if d in (".word", ".byte", ".half", ".dword"):
        return (d, [spell_imm(rng, imm(rng)) for _ in range(rng.randrange(0, 4))])
    if d in (".asciz", ".string", ".ascii"):
        s = rng.choice(["hello", "a b", "x\\n", "", "tab\\t", "q\\\"q", "%d\\0", "#no comment", "semi;colon", "\\u00e9"])
        return (d, ['"%s"' % s])
    if d in (".space", ".align"):
        return (d, [spell_imm(rng, rng.choice([0, 1, 2, 4, 8, 100]))])
    if d in (".globl", ".global", ".extern"):
        return (d, [rng.choice(labels) if labels else "main"])
    if d == ".eqv":
        return (d, ["N", "10"])
    if d == ".section":
        return (d, [".text"])
    if d in (".float", ".double"):
        return (d, [rng.choice(["1", "2", "1.5"])])
    return (d, [])


def program(rng, n=None, with_dirs=True):
    """a list of lines-to-be: ('label', name) | ('inst', m, ops) | ('dir', d, ops)"""
    n = n if n is not None else rng.randrange(1, 25)
    labels = sorted(set(label_name(rng) for _ in range(rng.randrange(1, 6))))
    items = []
    pending = list(labels)
    rng.shuffle(pending)
    for i in range(n):
        if pending and rng.random() < 0.3:
            items.append(("label", pending.pop()))
        if with_dirs and rng.random() < 0.1:
            d, ops = directive(rng, labels)
            items.append(("dir", d, ops))
        else:
            m, ops = statement(rng, labels)
            items.append(("inst", m, ops))
    for l in pending:
        if rng.random() < 0.8:
            items.append(("label", l))
    if rng.random() < 0.5:
        items += [("inst", "li", ["a7", "10"]), ("inst", "ecall", [])]
    return items


def render(rng, items, style=None):
    """text with random layout: indentation, separators, comments, blank lines, case, aliases"""
    style = style or {}
    crlf = style.get("crlf", rng.random() < 0.05)
    final_nl = style.get("final_nl", rng.random() < 0.85)
    lines = []
    i = 0
    while i < len(items):
        it = items[i]
        ind = rng.choice(["", " ", "  ", "\t", "    ", "\t\t"])
        if it[0] == "label":
            txt = it[1] + ":"
            if rng.random() < 0.5 and i + 1 < len(items) and items[i + 1][0] != "label":
                i += 1
                it2 = items[i]
                txt += rng.choice([" ", "\t", "  "]) + render_stmt(rng, it2)
        else:
            txt = render_stmt(rng, it)
        if rng.random() < 0.15:
            txt += rng.choice([" ", "", "\t"]) + "#" + rng.choice(["", " comment", "# x", " li t0, 1", " \"q", " 'c"])
        lines.append(ind + txt + rng.choice(["", "", " ", "\t"]))
        if rng.random() < 0.12:
            lines.append(rng.choice(["", "  ", "# full line comment", "\t#x"]))
        i += 1
    if rng.random() < 0.1:
        lines.insert(0, rng.choice(["", "# header", "  "]))
    nl = "\r\n" if crlf else "\n"
    return nl.join(lines) + (nl if final_nl else "")


def render_stmt(rng, it):
    kind, m, ops = it
    if kind == "inst" and rng.random() < 0.1:
        m = m.upper() if rng.random() < 0.7 else m.capitalize()
    ops2 = []
    for o in ops:
        if o in REGS_ABI:
            o = spell_reg(rng, o)
        elif o.endswith(")") and "(" in o:
            a, b = o[:-1].split("(")
            if b in REGS_ABI:
                b = spell_reg(rng, b)
            o = a + rng.choice(["", "", " "]) + "(" + b + ")"
        ops2.append(o)
    sep = rng.choice([", ", ",", " ", ",  ", " , ", "\t"])
    return m + (rng.choice([" ", "\t", "  "]) + sep.join(ops2) if ops2 else "")


# ---------------------------------------------------------------------------------------------
def mutate_line(rng, line):
    """G1(b): line-level damage"""
    k = rng.randrange(12)
    toks = line.replace(",", " ").split()
    if k == 0 and toks:
        toks.pop(rng.randrange(len(toks)))
        return " ".join(toks)
    if k == 1 and toks:
        j = rng.randrange(len(toks))
        toks.insert(j, toks[j])
        return " ".join(toks)
    if k == 2 and toks:
        j = rng.randrange(len(toks))
        toks[j] = rng.choice(["foo", "x32", "99999999999", "0x", "(", ")", "t7", "-", "1a", "a0:", ".word", "'", '"'])
        return " ".join(toks)
    if k == 3:
        return rng.choice(["frob", "addd", "mov", "push"]) + " " + " ".join(toks[1:])
    if k == 4:
        p = rng.randrange(len(line) + 1)
        return line[:p] + rng.choice([";", "!", "@", "$", "%", "^", "&", "*", "=", "+", "[", "]", "{", "}", "|", "\\", "/", "?", "<", ">", "~", "`"]) + line[p:]
    if k == 5:
        p = rng.randrange(len(line) + 1)
        return line[:p] + rng.choice(["é", "λ", "中", " ", " ", "😀", "İ"]) + line[p:]
    if k == 6:
        return line[:rng.randrange(len(line) + 1)]
    if k == 7:
        return line + rng.choice([" (", " )", " 'a", ' "abc', " '\\q'", ' "\\q"', " ''", " 'ab'"])
    if k == 8:
        return line + "\r"
    if k == 9:
        return rng.choice([".", "..", ". .", ".:", ". word 1", ".word .", ".unknown 1", ".macro m", ".endmacro", ".include \"x.s\""]) + " " + line
    if k == 10:
        return line.replace(" ", "", 1)
    return line + " " + line


def mutated_text(rng, text):
    lines = text.split("\n")
    for _ in range(rng.randrange(1, 4)):
        if not lines:
            break
        j = rng.randrange(len(lines))
        lines[j] = mutate_line(rng, lines[j])
    return "\n".join(lines)


LEX_ALPHABET = list(" \t,\n\r.#\"'():-_\;") + list("abcxyzABZ019") + ["li", "t0", "main:", ".word", ".", "'a'", "'\\n'",
               "\"s\"", "\\u00e9", "\\", "'", "\"", "#", "é", "0x1F", "-1", "zero", "a0", "(sp)", "4(sp)", "ecall", "ret", "\n", "\n"]


def token_soup(rng, n=None):
    n = n if n is not None else rng.randrange(0, 40)
    return "".join(rng.choice(LEX_ALPHABET) for _ in range(n))


def raw_unicode(rng, n=None):
    n = n if n is not None else rng.randrange(0, 30)
    out = []
    for _ in range(n):
        k = rng.random()
        if k < 0.6:
            out.append(chr(rng.randrange(0, 128)))
        elif k < 0.8:
            out.append(chr(rng.randrange(128, 0x800)))
        elif k < 0.95:
            c = rng.randrange(0x800, 0xFFFF)
            if 0xD800 <= c <= 0xDFFF:
                c = 0x4E2D
            out.append(chr(c))
        else:
            out.append(chr(rng.randrange(0x10000, 0x10FFFF)))
    return "".join(out)


def text_corpus(rng, n_valid=100, n_mut=100, n_soup=100, n_raw=50):
    """mixed stream of texts with a tag each"""
    out = []
    for _ in range(n_valid):
        out.append(("valid", render(rng, program(rng))))
    for _ in range(n_mut):
        out.append(("mutated", mutated_text(rng, render(rng, program(rng, rng.randrange(1, 10))))))
    for _ in range(n_soup):
        out.append(("soup", token_soup(rng)))
    for _ in range(n_raw):
        out.append(("raw", raw_unicode(rng)))
    return out
