"""Input generators (DESIGN.md 6).  Everything derives from the random.Random passed in."""

REGS_ABI = ["zero", "ra", "sp", "gp", "tp", "t0", "t1", "t2", "s0", "s1", "a0", "a1", "a2", "a3", "a4", "a5", "a6", "a7",
            "s2", "s3", "s4", "s5", "s6", "s7", "s8", "s9", "s10", "s11", "t3", "t4", "t5", "t6"]
TEMPS = ["t0", "t1", "t2", "t3", "t4", "t5", "t6"]
SAVED = ["s0", "s1", "s2", "s3", "s4", "s5", "s6", "s7", "s8", "s9", "s10", "s11"]
ARGS = ["a0", "a1", "a2", "a3", "a4", "a5", "a6", "a7"]

ARITH = ["add", "and", "or", "sll", "slt", "sltu", "sra", "srl", "sub", "xor", "mul", "mulh", "mulhsu", "mulhu",
         "div", "divu", "rem", "remu", "addw", "sllw", "sraw", "srlw", "divw", "remw", "remuw"]
IARITH = ["addi", "andi", "ori", "slli", "slti", "sltiu", "srai", "srli", "xori", "addiw", "slliw", "sraiw", "srliw"]
BRANCH = ["beq", "bne", "blt", "bge", "bltu", "bgeu", "bgt", "ble", "bgtu", "bleu"]
BRANCHZ = ["beqz", "bnez", "bltz", "bgez", "bgtz", "blez"]
LOADS = ["lb", "lbu", "lh", "lhu", "lw", "lwu"]
STORES = ["sb", "sh", "sw"]
UNARY = ["mv", "neg", "not", "seqz", "snez", "sltz", "sgtz"]
CSR = ["csrrw", "csrrs", "csrrc"]
CSRI = ["csrrwi", "csrrsi", "csrrci"]
CSRNAMES = ["ustatus", "uie", "utvec", "uscratch", "uepc", "ucause", "utval", "uip", "cycle", "time", "instret", "64", "0x41", "5"]
ALL_MNEMONICS = (ARITH + IARITH + BRANCH + BRANCHZ + LOADS + STORES + UNARY + CSR + CSRI +
                 ["ret", "ebreak", "ecall", "nop", "lui", "auipc", "jal", "jalr", "j", "jr", "la", "li", "b", "call", "sgez",
                  "fence", "fencei", "uret", "csrc", "csrr", "csrs", "csrw", "csrci", "csrsi", "csrwi"])
DIRECTIVES = [".align", ".ascii", ".asciz", ".byte", ".data", ".double", ".dword", ".endmacro", ".eqv", ".extern", ".float",
              ".global", ".globl", ".half", ".include", ".macro", ".section", ".space", ".string", ".text", ".word"]


def reg(rng, pool=None):
    r = rng.choice(pool or REGS_ABI)
    return r


def spell_reg(rng, r):
    if rng.random() < 0.25:
        return "x%d" % REGS_ABI.index(r)
    if r == "s0" and rng.random() < 0.2:
        return "fp"
    return r


def imm(rng, small=True):
    v = rng.choice([0, 1, -1, 2, 4, 8, -4, -8, 12, 16, -16, 10, 93, 5, 7, 100, 255, 2047, -2048]) if small or rng.random() < 0.7 \
        else rng.randrange(-2 ** 31, 2 ** 31)
    return v


def spell_imm(rng, v):
    k = rng.random()
    if k < 0.6:
        return str(v)
    if k < 0.8:
        return ("-" if v < 0 else "") + "0x%x" % abs(v)
    if k < 0.9:
        return ("-" if v < 0 else "") + "0b" + bin(abs(v))[2:]
    if 32 < v < 127 and chr(v) not in "'\\":
        return "'%s'" % chr(v)
    return str(v)


def label_name(rng, i=None):
    base = rng.choice(["loop", "end", "f", "g", "main", "L", "done", "skip", "fn", "data", "_x", "A", "B", "C"])
    return "%s%d" % (base, rng.randrange(20) if i is None else i)


def statement(rng, labels):
    """one instruction as (mnemonic, [operand strings]) over ABI names"""
    lab = rng.choice(labels) if labels else "L0"
    k = rng.random()
    if k < 0.18:
        return (rng.choice(ARITH[:18]), [reg(rng), reg(rng), reg(rng)])
    if k < 0.36:
        return (rng.choice(IARITH[:9]), [reg(rng), reg(rng), spell_imm(rng, imm(rng))])
    if k < 0.46:
        return ("li", [reg(rng), spell_imm(rng, imm(rng, False))])
    if k < 0.52:
        return (rng.choice(UNARY), [reg(rng), reg(rng)])
    if k < 0.60:
        m = rng.choice(LOADS)
        form = rng.random()
        off = spell_imm(rng, rng.choice([0, 4, 8, -4, -8, 12, 16, -12]))
        if form < 0.7:
            return (m, [reg(rng), "%s(%s)" % (off, reg(rng, ["sp", "sp", "t0", "a0", "s0"]))])
        if form < 0.8:
            return (m, [reg(rng), "(%s)" % reg(rng)])
        if form < 0.9:
            return (m, [reg(rng), lab])
        return (m, [reg(rng), off])
    if k < 0.68:
        m = rng.choice(STORES)
        form = rng.random()
        off = spell_imm(rng, rng.choice([0, 4, 8, -4, -8, 12, 16, -12]))
        if form < 0.75:
            return (m, [reg(rng), "%s(%s)" % (off, reg(rng, ["sp", "sp", "t0", "a0", "s0"]))])
        if form < 0.85:
            return (m, [reg(rng), "(%s)" % reg(rng)])
        if form < 0.95:
            return (m, [reg(rng), lab, reg(rng, TEMPS)])
        return (m, [reg(rng), off])
    if k < 0.76:
        if rng.random() < 0.6:
            return (rng.choice(BRANCH), [reg(rng), reg(rng), lab])
        return (rng.choice(BRANCHZ), [reg(rng), lab])
    if k < 0.82:
        return (rng.choice(["j", "jal", "call", "b"]), [lab]) if rng.random() < 0.8 else ("jal", [reg(rng, ["ra", "zero", "t0"]), lab])
    if k < 0.86:
        return ("ret", [])
    if k < 0.90:
        return ("ecall", [])
    if k < 0.93:
        return ("la", [reg(rng), lab])
    if k < 0.95:
        return ("lui", [reg(rng), spell_imm(rng, rng.choice([0, 1, 0x12345, 0xfffff, 0x80000]))])
    if k < 0.97:
        m = rng.choice(CSR + CSRI + ["csrr", "csrw", "csrs", "csrc", "csrwi", "csrsi", "csrci"])
        c = rng.choice(CSRNAMES)
        if m in CSR:
            return (m, [reg(rng), c, reg(rng)])
        if m in CSRI:
            return (m, [reg(rng), c, spell_imm(rng, rng.randrange(32))])
        if m == "csrr":
            return (m, [reg(rng), c])
        if m in ("csrw", "csrs", "csrc"):
            return (m, [reg(rng), c])
        return (m, [c, spell_imm(rng, rng.randrange(32))])
    if k < 0.985:
        return (rng.choice(["jr", "jalr"]), [reg(rng)])
    return (rng.choice(["nop", "ebreak", "uret", "fence", "sgez"]), [])


def directive(rng, labels):
    d = rng.choice([".data", ".text", ".word", ".byte", ".half", ".asciz", ".string", ".ascii", ".space", ".align",
                    ".globl", ".global", ".eqv", ".section", ".dword", ".float", ".double", ".extern"])
    if d in (".word", ".byte", ".half", ".dword"):
        return (d, [spell_imm(rng, imm(rng)) for _ in range(rng.randrange(0, 4))])
    if d in (".asciz", ".string", ".ascii"):
        s = rng.choice(["hello", "a b", "x\\n", "", "tab\\t", "q\\\"q", "%d\\0", "#no comment", "semi;colon", "\\u00e9"])
        return (d, ['"%s"' % s])
    if d in (".space", ".align"):
        return (d, [spell_imm(rng, rng.choice([0, 1, 2, 4, 8, 100]))])
    if d in (".globl", ".global", ".extern"):
        return (d, [rng.choice(labels) if labels else "main"])
    if d == ".eqv":
        return (d, ["N", "10"])
    if d == ".section":
        return (d, [".text"])
    if d in (".float", ".double"):
        return (d, [rng.choice(["1", "2", "1.5"])])
    return (d, [])


def program(rng, n=None, with_dirs=True):
    """a list of lines-to-be: ('label', name) | ('inst', m, ops) | ('dir', d, ops)"""
    n = n if n is not None else rng.randrange(1, 25)
    labels = sorted(set(label_name(rng) for _ in range(rng.randrange(1, 6))))
    items = []
    pending = list(labels)
    rng.shuffle(pending)
    for i in range(n):
        if pending and rng.random() < 0.3:
            items.append(("label", pending.pop()))
        if with_dirs and rng.random() < 0.1:
            d, ops = directive(rng, labels)
            items.append(("dir", d, ops))
        else:
            m, ops = statement(rng, labels)
            items.append(("inst", m, ops))
    for l in pending:
        if rng.random() < 0.8:
            items.append(("label", l))
    if rng.random() < 0.5:
        items += [("inst", "li", ["a7", "10"]), ("inst", "ecall", [])]
    return items


def render(rng, items, style=None):
    """text with random layout: indentation, separators, comments, blank lines, case, aliases"""
    style = style or {}
    crlf = style.get("crlf", rng.random() < 0.05)
    final_nl = style.get("final_nl", rng.random() < 0.85)
    lines = []
    i = 0
    while i < len(items):
        it = items[i]
        ind = rng.choice(["", " ", "  ", "\t", "    ", "\t\t"])
        if it[0] == "label":
            txt = it[1] + ":"
            if rng.random() < 0.5 and i + 1 < len(items) and items[i + 1][0] != "label":
                i += 1
                it2 = items[i]
                txt += rng.choice([" ", "\t", "  "]) + render_stmt(rng, it2)
        else:
            txt = render_stmt(rng, it)
        if rng.random() < 0.15:
            txt += rng.choice([" ", "", "\t"]) + "#" + rng.choice(["", " comment", "# x", " li t0, 1", " \"q", " 'c"])
        lines.append(ind + txt + rng.choice(["", "", " ", "\t"]))
        if rng.random() < 0.12:
            lines.append(rng.choice(["", "  ", "# full line comment", "\t#x"]))
        i += 1
    if rng.random() < 0.1:
        lines.insert(0, rng.choice(["", "# header", "  "]))
    nl = "\r\n" if crlf else "\n"
    return nl.join(lines) + (nl if final_nl else "")


def render_stmt(rng, it):
    kind, m, ops = it
    if kind == "inst" and rng.random() < 0.1:
        m = m.upper() if rng.random() < 0.7 else m.capitalize()
    ops2 = []
    for o in ops:
        if o in REGS_ABI:
            o = spell_reg(rng, o)
        elif o.endswith(")") and "(" in o:
            a, b = o[:-1].split("(")
            if b in REGS_ABI:
                b = spell_reg(rng, b)
            o = a + rng.choice(["", "", " "]) + "(" + b + ")"
        ops2.append(o)
    sep = rng.choice([", ", ",", " ", ",  ", " , ", "\t"])
    return m + (rng.choice([" ", "\t", "  "]) + sep.join(ops2) if ops2 else "")


# ---------------------------------------------------------------------------------------------
def mutate_line(rng, line):
    """G1(b): line-level damage"""
    k = rng.randrange(12)
    toks = line.replace(",", " ").split()
    if k == 0 and toks:
        toks.pop(rng.randrange(len(toks)))
        return " ".join(toks)
    if k == 1 and toks:
        j = rng.randrange(len(toks))
        toks.insert(j, toks[j])
        return " ".join(toks)
    if k == 2 and toks:
        j = rng.randrange(len(toks))
        toks[j] = rng.choice(["foo", "x32", "99999999999", "0x", "(", ")", "t7", "-", "1a", "a0:", ".word", "'", '"', ";", "?", "$", "@", "???", "\u00e9", toks[j] + ";", toks[j] + "?"])
        return " ".join(toks)
    if k == 3:
        return rng.choice(["frob", "addd", "mov", "push"]) + " " + " ".join(toks[1:])
    if k == 4:
        p = rng.randrange(len(line) + 1)
        return line[:p] + rng.choice([";", "!", "@", "$", "%", "^", "&", "*", "=", "+", "[", "]", "{", "}", "|", "\\", "/", "?", "<", ">", "~", "`"]) + line[p:]
    if k == 5:
        p = rng.randrange(len(line) + 1)
        return line[:p] + rng.choice(["é", "λ", "中", " ", " ", "😀", "İ"]) + line[p:]
    if k == 6:
        return line[:rng.randrange(len(line) + 1)]
    if k == 7:
        return line + rng.choice([" (", " )", " 'a", ' "abc', " '\\q'", ' "\\q"', " ''", " 'ab'", ' "abc\\', " '\\", ' "\\', " '\\u00", ' "\\u12'])
    if k == 8:
        return line + "\r"
    if k == 9:
        return rng.choice([".", "..", ". .", ".:", ". word 1", ".word .", ".unknown 1", ".macro m", ".endmacro", ".include \"x.s\""]) + " " + line
    if k == 10:
        return line.replace(" ", "", 1)
    return line + " " + line


def mutated_text(rng, text):
    lines = text.split("\n")
    for _ in range(rng.randrange(1, 4)):
        if not lines:
            break
        j = rng.randrange(len(lines))
        lines[j] = mutate_line(rng, lines[j])
    return "\n".join(lines)


LEX_ALPHABET = list(" \t,\n\r.#\"'():-_\;") + list("abcxyzABZ019") + ["li", "t0", "main:", ".word", ".", "'a'", "'\\n'",
               "\"s\"", "\\u00e9", "\\", "'", "\"", "#", "é", "0x1F", "-1", "zero", "a0", "(sp)", "4(sp)", "ecall", "ret", "\n", "\n"]


def token_soup(rng, n=None):
    n = n if n is not None else rng.randrange(0, 40)
    return "".join(rng.choice(LEX_ALPHABET) for _ in range(n))


def raw_unicode(rng, n=None):
    n = n if n is not None else rng.randrange(0, 30)
    out = []
    for _ in range(n):
        k = rng.random()
        if k < 0.6:
            out.append(chr(rng.randrange(0, 128)))
        elif k < 0.8:
            out.append(chr(rng.randrange(128, 0x800)))
        elif k < 0.95:
            c = rng.randrange(0x800, 0xFFFF)
            if 0xD800 <= c <= 0xDFFF:
                c = 0x4E2D
            out.append(chr(c))
        else:
            out.append(chr(rng.randrange(0x10000, 0x10FFFF)))
    return "".join(out)


def text_corpus(rng, n_valid=100, n_mut=100, n_soup=100, n_raw=50):
    """mixed stream of texts with a tag each"""
    out = []
    for _ in range(n_valid):
        out.append(("valid", render(rng, program(rng))))
    for _ in range(n_mut):
        out.append(("mutated", mutated_text(rng, render(rng, program(rng, rng.randrange(1, 10))))))
    for _ in range(n_soup):
        out.append(("soup", token_soup(rng)))
    for _ in range(n_raw):
        out.append(("raw", raw_unicode(rng)))
    return out


# ---------------------------------------------------------------------------------------------
# G2: structured programs, conforming by construction (C04), with optional injected violations (C05)
# ---------------------------------------------------------------------------------------------
class Fn:
    def __init__(self, name, nargs, saved, uses_ra, frame):
        self.name, self.nargs, self.saved, self.uses_ra, self.frame = name, nargs, saved, uses_ra, frame


def conforming(rng, nfuncs=None, depth=2, recursion=True):
    """returns (lines, meta) - a program following the calling convention.
    Shape: main (no frame; exit ecall), then functions with prologue/body/epilogue/ret."""
    nfuncs = rng.randrange(0, 4) if nfuncs is None else nfuncs
    fns = []
    for i in range(nfuncs):
        nargs = rng.randrange(0, 4)
        saved = rng.sample(SAVED, rng.randrange(0, 4))
        f = Fn("fn%d" % i, nargs, saved, True, 0)
        # thin wrappers: the return value reaches a0 without an instruction of the function writing a0
        r = rng.random()
        f.kind = "ecallwrap" if r < 0.12 else "forward" if r < 0.24 and i > 0 else "identity" if r < 0.3 else "fpframe" if r < 0.42 else "normal"
        if f.kind == "ecallwrap":
            f.nargs = 0
        if f.kind == "identity":
            f.nargs = 1
        if f.kind == "forward":
            f.target = rng.choice(fns)
            f.nargs = min(f.nargs, 1)
        f.reads_a0 = False if f.kind == "ecallwrap" else f.target.reads_a0 if f.kind == "forward" else True
        fns.append(f)
    lines = []
    lab = [0]

    def newlabel(p="L"):
        lab[0] += 1
        return "%s%d" % (p, lab[0])

    def body(fn, avail_tmp, depth, out):
        """emit statements; avail_tmp = temporaries currently holding a defined value (list)"""
        n = rng.randrange(1, 5)
        defined = list(avail_tmp)
        for _ in range(n):
            k = rng.random()
            if k < 0.35:
                t = rng.choice(TEMPS)
                out.append("li %s, %d" % (t, rng.randrange(-50, 50)))
                # use it right away so the value is never dead
                d = rng.choice(TEMPS)
                out.append("addi %s, %s, %d" % (d, t, rng.randrange(1, 9)))
                out.append("add a0, a0, %s" % d)
            elif k < 0.5 and fn is not None and fn.saved:
                s = rng.choice(fn.saved)
                out.append("addi %s, a0, %d" % (s, rng.randrange(1, 5)))
                out.append("add a0, a0, %s" % s)
            elif k < 0.7 and depth > 0:
                l_else, l_end = newlabel("else"), newlabel("end")
                out.append("%s a0, %s" % (rng.choice(["beqz", "bnez", "bltz", "bgez"]), l_else))
                body(fn, [], depth - 1, out)
                out.append("j %s" % l_end)
                out.append("%s:" % l_else)
                body(fn, [], depth - 1, out)
                out.append("%s:" % l_end)
            elif k < 0.8 and depth > 0:
                l_top, l_out = newlabel("loop"), newlabel("out")
                out.append("%s:" % l_top)
                out.append("blez a0, %s" % l_out)
                out.append("addi a0, a0, -1")
                out.append("j %s" % l_top)
                out.append("%s:" % l_out)
            elif k < 0.92 and [c for c in fns if fn is None or fns.index(c) < fns.index(fn)]:
                # (calls go to functions defined earlier: no unbounded recursion, and what a callee reads is what its body says)
                callee = rng.choice([c for c in fns if fn is None or fns.index(c) < fns.index(fn)])
                if True:
                    for a in range(callee.nargs):
                        if a > 0:
                            out.append("li a%d, %d" % (a, rng.randrange(0, 9)))
                    if not callee.reads_a0:
                        out += ["li a7, 1", "ecall"]      # the current a0 is used (printed) before a0 is redefined by the call
                    out.append(rng.choice(["jal %s", "call %s", "jal ra, %s"]) % callee.name)
            else:
                num, sig = rng.choice([(1, 1), (11, 1), (34, 1), (4, 1)])
                out.append("li a7, %d" % num)
                out.append("ecall")
                out.append("li a0, 0")

    # main
    out = ["main:"]
    out.append("li a0, %d" % rng.randrange(0, 20))
    early = rng.random() < 0.3      # a second exit on an error path whose number is loaded BEFORE the branch to it
    if early:
        out += ["li a7, 93", "bnez a0, fail_exit"]
    for callee in fns:          # every function is called at least once (else it is not a function)
        for a in range(1, callee.nargs):
            out.append("li a%d, %d" % (a, rng.randrange(0, 9)))
        if not callee.reads_a0:
            out += ["li a7, 1", "ecall"]
        out.append(rng.choice(["jal %s", "call %s", "jal ra, %s"]) % callee.name)
    body(None, [], depth, out)
    out += ["li a7, 1", "ecall"]          # print a0: the last value computed is used
    out.append("li a7, 10")
    out.append("ecall")
    if early:
        out += ["fail_exit:", "li a0, 1", "ecall"]      # exit(1) with the a7 = 93 set at the top
    lines += out
    for fn in fns:
        out = ["%s:" % fn.name]
        if fn.kind == "ecallwrap":
            lines += out + ["li a7, %d" % rng.choice([5, 12]), "ecall", "ret"]
            continue
        if fn.kind == "identity":
            lines += out + ["ret"]
            continue
        if fn.kind == "fpframe":
            # a frame addressed through the frame pointer s0/fp, which is restored through itself
            fr = rng.choice([16, 32])
            out += ["addi sp, sp, -%d" % fr, "sw ra, %d(sp)" % (fr - 4), "sw s0, %d(sp)" % (fr - 8), "addi s0, sp, %d" % fr]
            for a in range(1, fn.nargs):
                out.append("add a0, a0, a%d" % a)
            out += ["sw a0, -12(s0)", "lw t0, -12(s0)", "add a0, a0, t0"]
            if rng.random() < 0.4:
                out.append("addi sp, s0, -%d" % fr)          # sp recomputed from the frame pointer (a non-memory read of fp)
            out += ["lw ra, -4(s0)", rng.choice(["lw s0, -8(s0)", "lw fp, -8(fp)"]), "addi sp, sp, %d" % fr, "ret"]
            lines += out
            continue
        if fn.kind == "forward":
            fr = 16
            out += ["addi sp, sp, -%d" % fr, "sw ra, 12(sp)"]
            for a in range(1, fn.target.nargs):
                out.append("li a%d, %d" % (a, rng.randrange(0, 9)))
            if fn.reads_a0 != fn.target.reads_a0:
                raise AssertionError
            out += ["jal %s" % fn.target.name, "lw ra, 12(sp)", "addi sp, sp, %d" % fr, "ret"]
            lines += out
            continue
        slots = ["ra"] + fn.saved
        frame = 4 * len(slots) + 4 * rng.randrange(0, 3)
        via_reg = rng.random() < 0.15      # the frame is allocated with `sub sp, sp, t` / freed with `add sp, sp, t` (large frames are)
        if via_reg:
            out += ["li t6, %d" % frame, "sub sp, sp, t6"]
        else:
            out.append("addi sp, sp, -%d" % frame)
        offs = {}
        for i, r in enumerate(slots):
            offs[r] = 4 * i
            out.append("sw %s, %d(sp)" % (r, 4 * i))
        for a in range(1, fn.nargs):
            out.append("add a0, a0, a%d" % a)
        pad_lo = 4 * len(slots)
        if frame > pad_lo and rng.random() < 0.7:
            # scratch bytes / half-words in the padding at the TOP of the function's own frame (up to entry sp - 1)
            for _ in range(rng.randrange(1, 4)):
                if rng.random() < 0.5:
                    off = rng.choice([frame - 1, frame - 2, frame - 3, frame - 4, rng.randrange(pad_lo, frame)])
                    out.append("sb a0, %d(sp)" % off)
                    out.append("%s t0, %d(sp)" % (rng.choice(["lb", "lbu"]), off))
                else:
                    off = rng.choice([frame - 2, frame - 4] + [o for o in range(pad_lo, frame, 2)])
                    out.append("sh a0, %d(sp)" % off)
                    out.append("%s t0, %d(sp)" % (rng.choice(["lh", "lhu"]), off))
                out.append("add a0, a0, t0")
        body(fn, [], depth, out)
        if rng.random() < 0.3:
            # an early return: the function has two `ret`s, each behind its own epilogue
            alt = "alt_%s" % fn.name
            out.append("%s a0, %s" % (rng.choice(["beqz", "bgez", "bnez"]), alt))
            body(fn, [], max(depth - 1, 0), out)
            for r in slots:
                out.append("lw %s, %d(sp)" % (r, offs[r]))
            out += (["li t6, %d" % frame, "add sp, sp, t6"] if via_reg else ["addi sp, sp, %d" % frame]) + ["ret", "%s:" % alt]
            body(fn, [], max(depth - 1, 0), out)
        for r in slots:
            out.append("lw %s, %d(sp)" % (r, offs[r]))
        out += ["li t6, %d" % frame, "add sp, sp, t6"] if via_reg else ["addi sp, sp, %d" % frame]
        out.append("ret")
        lines += out
    return lines, dict(functions=[f.name for f in fns])


VIOLATIONS = ["save-to-zero", "dead-assignment", "invalid-use-after-call", "invalid-use-before-assignment",
              "overwrite-callee-saved-register", "lost-register-value", "invalid-stack-offset-usage", "invalid-segment",
              "unknown-ecall", "unreachable-code", "invalid-jump-to-function", "first-instruction-is-function"]


def inject(rng, lines, kind):
    """returns (lines', expected_code, marker_text) or None if not applicable"""
    L = list(lines)
    fn_starts = [i for i, l in enumerate(L) if l.startswith("fn") and l.endswith(":")]
    main_end = fn_starts[0] if fn_starts else len(L)
    # main's straight part ends with its first exit: what follows (an error-path exit) is a separate block
    if "li a7, 10" in L[:main_end]:
        main_end = L.index("li a7, 10") + 2
    framed = [i for i in fn_starts if i + 1 < len(L) and L[i + 1].startswith("addi sp, sp, -")]
    if kind in ("overwrite-callee-saved-register", "invalid-stack-offset-usage"):
        fn_starts = framed
    if kind == "save-to-zero":
        i = rng.randrange(1, main_end - 1)
        ins = rng.choice(["addi zero, a0, 1", "addi zero, zero, 5", "li zero, 7", "slti x0, x0, 1", "add zero, a0, a0", "ori x0, zero, 3", "mv zero, a0"])
        L.insert(i, ins)
        return L, "save-to-zero", ins
    if kind == "dead-assignment":
        i = rng.randrange(2, main_end - 1)
        L.insert(i, "li s11, 77")       # main never reads s11: the value is dead (and clobbers no live temporary)
        return L, "dead-assignment", "li s11, 77"
    if kind == "unknown-ecall":
        calls = [i for i in range(main_end) if L[i].startswith(("jal", "call"))]
        if not calls:
            return None
        i = calls[-1] + 1                 # a0 is whatever the callee returned: not a constant
        L[i:i] = ["add a7, a0, a0", "ecall", "li a0, 0"]
        return L, "unknown-ecall", "add a7, a0, a0\necall"
    if kind == "invalid-segment" and fn_starts and rng.random() < 0.35:
        # a whole function left in the data segment: EVERY instruction of it is in the wrong place (also its second return)
        f = rng.choice(fn_starts)
        end = next((i for i in fn_starts if i > f), len(L))
        L[end:end] = [".text"]
        L[f:f] = [".data"]
        inst = [i for i in range(f + 2, end + 1) if not L[i].endswith(":")]
        return L, "invalid-segment", L[inst[0]], inst[1:]
    if kind == "invalid-segment":
        i = rng.randrange(2, main_end - 1)
        L[i:i] = [".data", "addi a0, a0, 1", ".text"]
        return L, "invalid-segment", "addi a0, a0, 1"
    if kind == "unreachable-code":
        L += ["addi a0, a0, 5"] if not fn_starts else []
        if fn_starts:
            return None
        return L, "unreachable-code", "addi a0, a0, 5"
    if kind == "invalid-use-after-call" and fn_starts:
        calls = [i for i in range(main_end) if L[i].startswith(("jal", "call"))]
        if not calls:
            return None
        i = rng.choice(calls)
        L.insert(i, "li t4, 5")
        if rng.random() < 0.5:           # the first read is a read-modify-write of the same register
            first = rng.choice(["addi t4, t4, 1", "slli t4, t4, 1", "add t4, t4, a0", "sub t4, a0, t4"])
            L[i + 2:i + 2] = [first, "add a0, a0, t4"]
            return L, "invalid-use-after-call", first
        L.insert(i + 2, "add a0, a0, t4")
        return L, "invalid-use-after-call", "add a0, a0, t4"
    if kind == "invalid-use-before-assignment":
        if rng.random() < 0.5:
            first = rng.choice(["addi t5, t5, 3", "xori t5, t5, -1", "add t5, a0, t5", "neg t5, t5"])
            L[2:2] = [first, "add a0, a0, t5"]
            return L, "invalid-use-before-assignment", first
        L.insert(2, "add a0, a0, t5")
        return L, "invalid-use-before-assignment", "add a0, a0, t5"
    if kind == "overwrite-callee-saved-register" and fn_starts and rng.random() < 0.2:
        # the callee-saved register is sp itself: a frame that is allocated and never released (round 8: the check iterated
        # over a register set from which sp had been removed).  Reported on the allocation, the first change of sp.
        f = rng.choice(fn_starts)
        if f + 1 < len(L) and L[f + 1].startswith("addi sp, sp, -"):
            n = int(L[f + 1].split("-")[1])
            end = min([g for g in fn_starts if g > f] + [len(L)])
            epi = [i for i in range(f + 2, end) if L[i] == "addi sp, sp, %d" % n]
            if epi:
                for i in reversed(epi):
                    del L[i]
                return L, "overwrite-callee-saved-register", L[f + 1], [f + 1]
    if kind == "overwrite-callee-saved-register" and fn_starts:
        f = rng.choice(fn_starts)
        # after the prologue (find first non sw/addi line)
        j = f + 1
        while j < len(L) and (L[j].startswith("sw ") or L[j].startswith("addi sp")):
            j += 1
        if "alt_" + L[f] in L and rng.random() < 0.6:
            j = L.index("alt_" + L[f]) + 1        # on the path that ends in the function's LATER return only
        used = set(w for l in L for w in l.replace(",", " ").split())
        cand = [s for s in SAVED if s not in used]
        if not cand:
            return None
        s = cand[0]
        if rng.random() < 0.4:          # clobbered on both arms of a branch: every first store must be reported
            L[j:j] = ["beqz a0, ocs_x", "li %s, 3" % s, "j ocs_y", "ocs_x:", "li %s, 4" % s, "ocs_y:", "add a0, a0, %s" % s]
            return L, "overwrite-callee-saved-register", "li %s, 3" % s, ["li %s, 4" % s]
        L[j:j] = ["li %s, 3" % s, "add a0, a0, %s" % s]
        return L, "overwrite-callee-saved-register", "li %s, 3" % s
    if kind == "invalid-stack-offset-usage" and fn_starts:
        f = rng.choice(fn_starts)
        j = f + 1
        while j < len(L) and (L[j].startswith("sw ") or L[j].startswith("addi sp")):
            j += 1
        frame = int(L[f + 1].split("-")[1])
        off = frame + rng.choice([0, 0, 4, 8])
        acc = rng.choice(["sw a0, %d(sp)", "sw zero, %d(sp)", "sw x0, %d(sp)", "sb a0, %d(sp)", "sh zero, %d(sp)", "lw t6, %d(sp)", "lbu t6, %d(sp)"]) % off
        L.insert(j, acc)
        if acc.startswith("l"):
            L.insert(j + 1, "add a0, a0, t6")
        return L, "invalid-stack-offset-usage", acc
    if kind == "invalid-jump-to-function" and fn_starts:
        name = L[rng.choice(fn_starts)][:-1]
        i = main_end - 2
        L.insert(i, "j %s" % name)
        return L, "invalid-jump-to-function", "j %s" % name
    if kind == "first-instruction-is-function" and fn_starts:
        name = L[fn_starts[0]][:-1]
        body = L[fn_starts[0]:]
        main = L[:fn_starts[0]]
        return body + main, "first-instruction-is-function", name
    return None


# ---------------------------------------------------------------------------------------------
# G3: arbitrary flow
# ---------------------------------------------------------------------------------------------
def random_flow(rng, n=None):
    n = n if n is not None else rng.randrange(2, 18)
    labels = ["B%d" % i for i in range(rng.randrange(1, 6))]
    lines = ["main:"]
    placed = set()
    for i in range(n):
        if rng.random() < 0.3:
            l = rng.choice(labels)
            if l not in placed:
                placed.add(l)
                lines.append("%s:" % l)
        k = rng.random()
        tgt = rng.choice(labels)
        if k < 0.2:
            lines.append("j %s" % tgt)
        elif k < 0.4:
            # every branch mnemonic (base and pseudo), the zero register in either operand position
            pool = TEMPS + ARGS + ["zero", "zero", "x0"]
            if rng.random() < 0.7:
                lines.append("%s %s, %s, %s" % (rng.choice(["beq", "bne", "blt", "bge", "bltu", "bgeu", "bgt", "ble", "bgtu", "bleu"]),
                                                rng.choice(pool), rng.choice(pool), tgt))
            else:
                lines.append("%s %s, %s" % (rng.choice(["beqz", "bnez", "bltz", "bgez", "bgtz", "blez"]), rng.choice(pool), tgt))
        elif k < 0.5:
            lines.append("%s %s" % (rng.choice(["jal", "call", "jal t0,"]), tgt))
        elif k < 0.6:
            lines.append("ret")
        elif k < 0.65:
            lines += ["li a7, %d" % rng.choice([10, 93, 1, 5, 7]), "ecall"]
        elif k < 0.7:
            lines.append("ecall")
        else:
            m, ops = statement(rng, labels)
            if m in ("j", "jal", "call", "b", "jr", "jalr") or m in BRANCH or m in BRANCHZ:
                m, ops = "addi", ["t0", "t0", "1"]
            lines.append(m + " " + ", ".join(ops))
    for l in labels:
        if l not in placed:
            lines.append("%s:" % l)
            if rng.random() < 0.8:
                lines.append(rng.choice(["ret", "li a7, 10", "addi a0, a0, 1", "ecall"]))
    return "\n".join(lines) + "\n"


def sp_switch_prog(rng):
    """a function that switches sp to a value held in another register (a private stack, a frame pointer), stores
    through it and switches back: what is known about the frame must not survive an sp of unknown position"""
    k = rng.choice([8, 12, 16, 20])
    slot = rng.choice([0, 4, 8])
    src = rng.choice(["s1", "s2", "t3", "a3"])
    L = ["main:", "addi %s, sp, -%d" % (src, rng.choice([k - slot, k, 4, 64])), "li a0, 3", "jal foo", "li a7, 10", "ecall",
         "foo:", "addi sp, sp, -%d" % k, "li t0, %d" % rng.choice([1, 5, 10]), "sw t0, %d(sp)" % slot, "addi t1, sp, 0",
         rng.choice(["addi sp, %s, 0", "add sp, %s, zero", "mv sp, %s"]) % src,
         "sw zero, %d(sp)" % rng.choice([0, 4, slot]), "addi sp, t1, 0", "lw a7, %d(sp)" % slot, "ecall", "addi sp, sp, %d" % k, "ret"]
    return "\n".join(L) + "\n"


def loop_slot_prog(rng):
    """a stack slot set to a constant before a loop and overwritten inside it with a value the analysis does not know,
    while the registers known at the loop head stay as they were: only the MEMORY facts change along the back edge"""
    slot = rng.choice([0, 4, 8, 12])
    k = rng.choice([10, 93, 1, 5])
    unk = rng.choice(["a1", "a2", "t3"])
    L = ["main:", "addi sp, sp, -16", "li t0, %d" % k, "sw t0, %d(sp)" % slot, "li t0, 0"]
    L += ["loop:", "lw a7, %d(sp)" % slot]
    L += rng.choice([[], ["ecall"], ["add a0, a0, a7"]])
    L += ["sw %s, %d(sp)" % (unk, slot), rng.choice(["addi a0, a0, -1", "srli a0, a0, 1"]), "bnez a0, loop"]
    L += ["lw a1, %d(sp)" % slot, "add a0, a0, a1", "addi sp, sp, 16", "li a7, 10", "ecall"]
    return "\n".join(L) + "\n"


def stack_fuzz(rng):
    """a function that hammers its frame with word/half/byte stores and loads, constants, a callee with its own
    frame, and ecalls - the value analysis has to keep (or give up) every slot claim correctly"""
    frame = rng.choice([16, 32])
    L = ["main:", "li a0, 3", "jal f", "li a7, 10", "ecall", "f:", "addi sp, sp, -%d" % frame, "sw ra, %d(sp)" % (frame - 4)]
    temps = ["t0", "t1", "t2", "t3", "a1", "a2", "s0"]
    saved_s0 = rng.random() < 0.5
    if saved_s0:
        L.append("sw s0, %d(sp)" % (frame - 8))
    else:
        temps.remove("s0")
    lo = frame - 8 if saved_s0 else frame - 4
    for _ in range(rng.randrange(4, 16)):
        k = rng.random()
        t = rng.choice(temps)
        if k < 0.25:
            L.append("li %s, %d" % (t, rng.choice([0, 1, 7, 93, 10, 255, 256, -1, 0x10a, 65535, -32768, 1 << 20])))
        elif k < 0.45:
            L.append("sw %s, %d(sp)" % (t, 4 * rng.randrange(0, lo // 4)))
        elif k < 0.6:
            L.append("%s %s, %d(sp)" % (rng.choice(["sb", "sh"]), t, rng.randrange(0, lo - 1)))
        elif k < 0.8:
            L.append("lw %s, %d(sp)" % (t, 4 * rng.randrange(0, lo // 4)))
        elif k < 0.88:
            L.append("%s %s, %d(sp)" % (rng.choice(["lb", "lbu", "lh", "lhu"]), t, rng.randrange(0, lo - 1)))
        elif k < 0.94:
            L.append("addi %s, %s, %d" % (t, rng.choice(temps), rng.randrange(-8, 9)))
        elif k < 0.97:
            L.append("jal g")
        else:
            L += ["lw a7, %d(sp)" % (4 * rng.randrange(0, lo // 4)), "ecall"]
    if saved_s0:
        L.append("lw s0, %d(sp)" % (frame - 8))
    L += ["lw ra, %d(sp)" % (frame - 4), "addi sp, sp, %d" % frame, "ret",
          "g:", "addi sp, sp, -8", "sw zero, 0(sp)", "sw a0, 4(sp)", "li t0, 99", "li t1, 98", "addi sp, sp, 8", "ret"]
    return "\n".join(L) + "\n"


ABI_NAMES = ["zero", "ra", "sp", "gp", "tp", "t0", "t1", "t2", "s0", "s1", "a0", "a1", "a2", "a3", "a4", "a5", "a6", "a7",
             "s2", "s3", "s4", "s5", "s6", "s7", "s8", "s9", "s10", "s11", "t3", "t4", "t5", "t6"]


def handler_prog(rng):
    """programs that install an interrupt handler (utvec = CSR 5) in every spelling: csrrw / csrw / csrrwi, numeric or
    named CSR, any rd (including rd == rs1), address loaded directly or moved through another register or the stack"""
    h = rng.choice(["handler", "isr", "trap_"])
    src = rng.choice(["t0", "t1", "a0", "s1"])
    rd = rng.choice(["zero", "zero", src, "t2", "a1"])
    csr = rng.choice(["utvec", "5", "0x5", "UTVEC", "0b101"])
    L = ["main:", "la %s, %s" % (src, h)]
    k = rng.random()
    if k < 0.2:
        other = rng.choice(["t3", "a2"])
        L.append("mv %s, %s" % (other, src))
        src = other
        rd = rng.choice(["zero", src])
    elif k < 0.3:
        L += ["sw %s, -4(sp)" % src, "lw %s, -4(sp)" % src]
    form = rng.random()
    if form < 0.6:
        L.append("csrrw %s, %s, %s" % (rd, csr, src))
    elif form < 0.9:
        L.append("csrw %s, %s" % (src, csr))
    else:
        L.append("csrrs %s, %s, %s" % (rd, csr, src))          # does not install: only csrrw/csrrwi write the vector
    if rng.random() < 0.25:
        # the handler is installed by a set-up ROUTINE that main calls; nothing falls through from main into it (main ends
        # in a spin loop, or another function stands in between)
        install = L[1:]
        L = ["main:", rng.choice(["jal setup", "call setup"]), "csrrsi zero, ustatus, 1"]
        L += rng.choice([["spin:", "j spin"], ["li a7, 10", "ecall", "between:", "addi a0, a0, 1", "ret"], ["jal between", "li a7, 10", "ecall", "between:", "ret"]])
        L += ["setup:"] + install + ["ret", "%s:" % h]
        L += ["csrrw t0, uscratch, t0", "sw t1, 0(t0)", "addi t1, t1, 1", "lw t1, 0(t0)", "csrrw t0, uscratch, t0"][:rng.randrange(0, 6)]
        L.append(rng.choice(["uret", "uret", "j %s" % h]))
        return "\n".join(L) + "\n"
    L += ["csrrsi zero, ustatus, 1", "li a7, 10", "ecall", "%s:" % h]
    if rng.random() < 0.12:
        # the handler's label is the last thing of the program, or only data follows it: there is no handler code at all
        return "\n".join(L + rng.choice([[], [".data", "hv: .word 1"], [".data"], ["hx:"]])) + "\n"
    L += ["csrrw t0, uscratch, t0", "sw t1, 0(t0)", "addi t1, t1, 1", "lw t1, 0(t0)", "csrrw t0, uscratch, t0"][:rng.randrange(0, 6)]
    if rng.random() < 0.5:
        # registers reloaded right before the handler ends: `uret` hands every register back to the interrupted code, so none
        # of these reloads is a dead value - whichever register it is (round 9: one register missing from the 'all writable' set)
        for r in rng.sample([x for x in ABI_NAMES if x not in ("zero", "sp", "t0")], rng.randrange(1, 4)):
            L.append("lw %s, %d(t0)" % (r, 4 * rng.randrange(0, 16)))
    L.append(rng.choice(["uret", "uret", "ret", "j %s" % h]))
    return "\n".join(L) + "\n"


# ---------------------------------------------------------------------------------------------
# G7: shapes whose analysis goes through hash-ordered sets (C10): several entry labels, several returns,
# shared tails, first uses on both arms of a branch, several files
# ---------------------------------------------------------------------------------------------
def det_prog(rng):
    """returns (files, base)"""
    nf = rng.randrange(1, 4)
    main = ["main:", "li a0, %d" % rng.randrange(0, 9)]
    funcs = []
    for i in range(nf):
        names = ["f%d" % i] + (["g%d" % i] if rng.random() < 0.5 else []) + (["h%d" % i] if rng.random() < 0.2 else [])
        for nm in rng.sample(names, len(names)) if rng.random() < 0.7 else names[:1]:
            main.append("jal %s" % nm)
            if rng.random() < 0.5:         # temporaries read after the call on both arms of a branch: two first uses on one level
                t = rng.choice(["t0", "t1", "t2"])
                main += ["beqz a0, m%d_%s" % (i, nm), "addi a1, %s, 1" % t, "j e%d_%s" % (i, nm), "m%d_%s:" % (i, nm),
                         "addi a2, %s, 2" % t, "e%d_%s:" % (i, nm), "add a0, a1, a2"]
        body = [n + ":" for n in names]
        if rng.random() < 0.6:
            s = rng.choice(["s1", "s2", "s11"])
            body += ["li %s, %d" % (s, i), "add a0, a0, %s" % s]      # callee-saved register overwritten
        nret = rng.randrange(1, 4)
        for r in range(nret - 1):
            body += ["%s a0, r%d_%d" % (rng.choice(["beqz", "bnez", "bltz"]), i, r)]
            if rng.random() < 0.4:
                body += ["li s3, 1", "add a0, a0, s3"]
        if rng.random() < 0.25:
            body += [rng.choice(["addi sp, sp, 8", "addi sp, sp, 4", "sw a0, 4(sp)"])]      # the stack pointer moved the wrong way / a store above it
        body += ["addi a0, a0, 1", "ret"]
        for r in range(nret - 1):
            body += ["r%d_%d:" % (i, r)]
            if rng.random() < 0.5:
                body += ["li s4, 2", "add a0, a0, s4"]
            body += ["ret"] if rng.random() < 0.8 else ["j f%d_tail" % i]
        if any(l == "j f%d_tail" % i for l in body):
            body += ["f%d_tail:" % i, "addi a0, a0, 3", "ret"]
        if rng.random() < 0.25 and i > 0:       # shared tail: jump into the previous function's body
            body.insert(len(names) + 0, "bgtz a0, f%d" % (i - 1))
        funcs.append(body)
    main += ["li a7, 10", "ecall"]
    if rng.random() < 0.3:      # a function that is the first instruction of the program AND entered by a plain jump
        if rng.random() < 0.5:
            main.insert(len(main) - 2, "j f0")
            extra = []
        else:                   # ... the jump being the FIRST instruction of another called function
            main.insert(len(main) - 2, "jal retry")
            extra = ["retry:", "j f0"]
        return [("a.s", "\n".join(funcs[0] + main + [l for f in funcs[1:] for l in f] + extra) + "\n")], "a.s"
    if rng.random() < 0.5 or nf == 0:
        return [("a.s", "\n".join(main + [l for f in funcs for l in f]) + "\n")], "a.s"
    if rng.random() < 0.15:     # twin files: the same text under two names - identical diagnostics at identical offsets in two files
        twin = rng.choice(["addi zero, a0, 1\n", " li t5, 3\n addi zero, t5, 2\n", "lw t0, 4(sp\n", " frob a0\n addi zero, zero, 0\n"])
        return [("a.s", "\n".join(main) + "\n" + '.include "u1.s"\n.include "lib/u2.s"\n' + "\n".join(l for f in funcs for l in f) + "\n"),
                ("u1.s", twin), ("lib/u2.s", twin)], "a.s"
    # included files: flat names, or the SAME file name in different directories
    names = ["f%d.s" % i for i in range(nf)] if rng.random() < 0.5 else ["d%d/util.s" % i for i in range(nf)]
    files = [("a.s", "\n".join(main) + "\n" + "".join('.include "%s"\n' % n for n in names))]
    for n, f in zip(names, funcs):
        files.append((n, "\n".join(f) + "\n"))
    return files, "a.s"


def csr_mem_prog(rng):
    """memory reached through a base address held in a CSR (trap-handler save areas) and through sp, at negative,
    zero, positive and extreme offsets: every spelling of a memory-location key appears in the value maps"""
    L = ["main:"]
    csr = rng.choice(["uscratch", "0x40", "64", "utvec", "0x5", "4160", "0x1040", "4096", "65600", "0xFFF"])
    base = rng.choice(["t0", "t1", "a3", "s2"])
    L.append(rng.choice(["csrrw %s, %s, zero", "csrr %s, %s", "csrrs %s, %s, zero"]) % (base, csr))
    if rng.random() < 0.4:
        # a second CSR whose number agrees with the first in its low 12 bits, holding another value
        other = rng.choice(["64", "4160", "8256", "0x40"])
        L += ["li a4, %d" % rng.randrange(1, 9), "csrrw zero, %s, a4" % other, "li a5, %d" % rng.randrange(10, 19), "csrrw zero, %s, a5" % rng.choice(["64", "4160", "0x2040"])]
    offs = [0, -4, 4, 8, -8, -2048, 2047, rng.randrange(-2048, 2048), rng.randrange(-64, 64) * 4]
    for _ in range(rng.randrange(1, 6)):
        o = rng.choice(offs)
        k = rng.random()
        if k < 0.5:
            L.append("%s %s, %d(%s)" % (rng.choice(["sw", "sw", "sh", "sb"]), rng.choice(["a0", "a1", "t3", "zero"]), o, base))
        elif k < 0.7:
            L.append("%s %s, %d(%s)" % (rng.choice(["lw", "lh", "lbu"]), rng.choice(["a2", "t4"]), o, base))
        elif k < 0.85:
            L.append("addi %s, %s, %d" % (base, base, rng.choice([4, -4, 16, -12])))
        else:
            L.append("sw %s, %d(sp)" % (rng.choice(["a0", "ra", base]), rng.choice([-4, -8, 0, 4, -2048])))
    L += ["li a7, 10", "ecall"]
    return "\n".join(L) + "\n"


def illformed(rng):
    """a small valid program with ONE defect that makes the analysis stop; returns (text, kind, name, lines) where
    `lines` are the 0-based lines at which the error may be located (an occurrence of the name that is at fault)"""
    body = ["main:", "li a0, %d" % rng.randrange(0, 9), "jal f", "beqz a0, skip", "addi a0, a0, 1", "skip:", "li a7, 10", "ecall",
            "f:", "addi a0, a0, 2", "ret"]
    data = [".data", "count: .word 0", "msg: .asciz \"hi\"", ".text"]
    L = (data + body) if rng.random() < 0.5 else (body + data[:-1])
    k = rng.choice(["dup-adjacent", "dup-data", "dup-sep", "dup-trailing", "dup-directive-between", "dup-code-data", "undefined-jump",
                    "undefined-branch", "undefined-la", "undefined-call", "label-at-eof", "no-return"])
    name = rng.choice(["x", "loop", "count2", "Lbl_1", "end"])
    if k == "dup-adjacent":
        i = L.index("addi a0, a0, 1")
        L[i:i] = ["%s:" % name, "%s:" % name]
        return "\n".join(L) + "\n", "duplicatelabel", name, [i + 1]
    if k == "dup-data":
        i = L.index("count: .word 0")
        L.insert(i + 1, "count: .word 4")
        return "\n".join(L) + "\n", "duplicatelabel", "count", [i + 1]
    if k == "dup-sep":
        i = L.index("li a0, %s" % L[L.index("main:") + 1].split(", ")[1])
        L.insert(i, "%s:" % name)
        j = L.index("addi a0, a0, 2")
        L.insert(j, "%s:" % name)
        return "\n".join(L) + "\n", "duplicatelabel", name, [j]
    if k == "dup-trailing":
        L += ["%s:" % name, "%s:" % name]
        return "\n".join(L) + "\n", "duplicatelabel", name, [len(L) - 1]
    if k == "dup-directive-between":
        i = L.index("addi a0, a0, 1")
        L[i:i] = ["%s:" % name, ".text", "%s:" % name]
        return "\n".join(L) + "\n", "duplicatelabel", name, [i + 2]
    if k == "dup-code-data":
        i = L.index("addi a0, a0, 1")
        L.insert(i, "count:")
        lines = [n for n, l in enumerate(L) if l.startswith("count:")]
        return "\n".join(L) + "\n", "duplicatelabel", "count", lines[1:]
    if k.startswith("undefined"):
        use = {"undefined-jump": rng.choice(["j %s", "jal zero, %s", "jal t0, %s", "jal t1, %s"]), "undefined-branch": rng.choice(["bnez a0, %s", "bgeu a0, a1, %s"]),
               "undefined-la": rng.choice(["la a1, %s", "lw a1, %s"]), "undefined-call": rng.choice(["jal %s", "call %s", "jal ra, %s"])}[k] % "nowhere"
        i = L.index("addi a0, a0, 1")
        L.insert(i, use)
        return "\n".join(L) + "\n", "labelsnotdefined", "nowhere", [i]
    if k == "label-at-eof":       # a label that is jumped to but has no instruction after it
        i = L.index("addi a0, a0, 1")
        L.insert(i, rng.choice(["j %s", "bnez a0, %s"]) % name)   # (a CALL to such a label is analysed: the call has no known target)
        L += ["%s:" % name] + ([".data", "v: .word 1"] if rng.random() < 0.3 else [])
        return "\n".join(L) + "\n", "labelwithoutinstruction", name, [i, L.index("%s:" % name)]
    i = L.index("ret")
    L[i] = "j f"
    return "\n".join(L) + "\n", "functionwithoutreturn", "f", [L.index("f:"), L.index("f:") + 1]


def fold_prog(rng):
    """straight-line arithmetic on known constants (boundary values, both signs) and on entry-relative values through every
    register-register / register-immediate operator and the arithmetic pseudo-instructions: everything the value analysis folds"""
    vals = [0, 1, -1, 2, 5, -5, 7, 31, 32, 33, 255, -256, 2047, -2048, 0x7fffffff, -0x80000000, 0x12345678, -0x12345678, 65535, 65536]
    regs = ["t0", "t1", "t2", "a1", "a2", "a3", "t3", "t4"]
    L = ["main:"]
    known = []
    for r in rng.sample(regs, 4):
        L.append("li %s, %d" % (r, rng.choice(vals)))
        known.append(r)
    for _ in range(rng.randrange(4, 14)):
        d = rng.choice(regs)
        k = rng.random()
        if k < 0.45:
            L.append("%s %s, %s, %s" % (rng.choice(asm_ops_r()), d, rng.choice(known + ["zero", "sp", "s0"]), rng.choice(known + ["zero"])))
        elif k < 0.8:
            op = rng.choice(["addi", "andi", "ori", "xori", "slti", "sltiu", "slli", "srli", "srai"])
            imm = rng.choice([0, 1, 31]) if op in ("slli", "srli", "srai") else rng.choice([0, 1, -1, 7, -7, 2047, -2048])
            L.append("%s %s, %s, %d" % (op, d, rng.choice(known + ["sp", "s1", "zero", "x0"]), imm))
        else:
            L.append("%s %s, %s" % (rng.choice(["mv", "neg", "not", "seqz", "snez", "sltz", "sgtz"]), d, rng.choice(known)))
        if d not in known:
            known.append(d)
    for r in known:
        L.append("add a0, a0, %s" % r)
    L += ["li a7, 1", "ecall", "li a7, 10", "ecall"]
    return "\n".join(L) + "\n"


def asm_ops_r():
    return ["add", "sub", "and", "or", "xor", "sll", "srl", "sra", "slt", "sltu", "mul", "mulh", "mulhsu", "mulhu", "div", "divu", "rem", "remu"]


def loop_fn_prog(rng):
    """callers before their callees; leaf helpers; functions whose return value is assigned inside while / do-while loops
    (exit test at the head or at the bottom), nested or followed by further functions: the shapes in which a backward
    dataflow sweep needs several rounds to carry a use from after the call to the definition inside the loop"""
    nf = rng.randrange(1, 4)
    L = ["main:", "li a0, %d" % rng.randrange(1, 9)]
    for i in range(nf):
        if rng.random() < 0.5:
            L += ["jal ra, help%d" % i]
        L += ["li a0, %d" % rng.randrange(1, 9), "jal ra, lf%d" % i]
        L += rng.choice([["li a7, 1", "ecall"], ["add a1, a0, a0", "mv a0, a1", "li a7, 1", "ecall"], ["mv s1, a0"]])
    L += ["li a7, 10", "ecall"]
    for i in range(nf):
        if rng.random() < 0.6:
            L += ["help%d:" % i, "li a7, %d" % rng.choice([4, 1, 11]), "ecall", "ret"]
        if rng.random() < 0.25:     # a function that loops / tail-recurses by jumping to its OWN entry label
            L += ["lf%d:" % i, "beqz a0, dn%d" % i, rng.choice(["addi a0, a0, -1", "srli a0, a0, 1", "addi a0, a0, -2"]),
                  rng.choice(["j lf%d", "bnez a0, lf%d", "bgtz a0, lf%d"]) % i, "dn%d:" % i, "ret"]
            continue
        L += ["lf%d:" % i, "mv t0, a0", "li a0, 0"]
        if rng.random() < 0.6:      # while loop
            L += ["lp%d:" % i, "beq t0, zero, dn%d" % i]
            L += rng.choice([["mv a0, t0"], ["add a0, a0, t0"], ["addi a0, t0, 1"], ["slli a0, t0, 1", "addi t1, a0, 0"]])
            if rng.random() < 0.3:
                L += ["andi t2, t0, 1", "beqz t2, sk%d" % i, "addi a0, a0, 1", "sk%d:" % i]
            L += ["addi t0, t0, -1", "j lp%d" % i, "dn%d:" % i]
        else:                       # do-while
            L += ["lp%d:" % i, rng.choice(["mv a0, t0", "add a0, a0, t0"]), "addi t0, t0, -1", "bnez t0, lp%d" % i]
        L += ["ret"]
    return "\n".join(L) + "\n"


def stopping_tree(rng):
    """a two-file program whose analysis is stopped by ONE condition; -> (files, names, kind, where): `names` are the
    labels at fault, `where` the files that hold an occurrence at which the error may be located"""
    kind = rng.choice(["undefined-two-files"] * 4 + ["undefined-lib", "noreturn-lib", "duplicate-lib", "duplicate-across", "eof-label-lib"])
    pad_a, pad_b = rng.randrange(0, 4), rng.randrange(0, 6)
    pool = ["alpha_missing", "zeta_missing", "mid_gone", "Zed", "a_1", "nowhere", "B", "zz"]
    n1, n2 = rng.sample(pool, 2)
    use = lambda n: rng.choice(["j %s", "bnez a0, %s", "la a1, %s", "jal %s"]) % n
    main_body = [" li a0, 1"] * pad_a + [" jal helper"]
    lib_body = ["helper:"] + [" addi a0, a0, 1"] * pad_b
    lib_tail = [" ret"]
    names, where = [], []
    if kind == "undefined-two-files":
        main_body.append(" " + use(n1))
        lib_body.append(" " + use(n2))
        names, where = [n1, n2], ["a.s", "lib.s"]
    elif kind == "undefined-lib":
        lib_body.append(" " + use(n1))
        if rng.random() < 0.5:
            lib_body.append(" " + use(n2))
            names = [n1, n2]
        else:
            names = [n1]
        where = ["lib.s"]
    elif kind == "noreturn-lib":
        lib_tail = rng.choice([[" li a7, 10", " ecall"], [" j helper"], ["spin:", " j spin"]])
        names, where = ["helper"], ["lib.s"]
    elif kind == "duplicate-lib":
        lib_body += ["%s:" % n1, " addi a0, a0, 2", "%s:" % n1]
        names, where = [n1], ["lib.s"]
    elif kind == "duplicate-across":
        main_body += ["%s:" % n1, " addi a0, a0, 3"]
        lib_body += ["%s:" % n1]
        names, where = [n1], ["a.s", "lib.s"]
    else:
        lib_body.append(" " + rng.choice(["j %s", "bnez a0, %s"]) % n1)
        lib_tail = [" ret", "%s:" % n1]
        names, where = [n1], ["lib.s"]
    inc = ' .include "lib.s"'
    tail = [" li a7, 10", " ecall"]
    if kind == "duplicate-across":
        fa = ["main:"] + main_body + tail + [inc]
    else:
        fa = ["main:"] + main_body + tail + [""] * rng.randrange(0, 3) + [inc]
    lead = [""] * rng.randrange(0, 3)
    fb = lead + lib_body + lib_tail
    nl = lambda L: "\n".join(L) + ("\n" if rng.random() < 0.8 else "")
    return [("a.s", nl(fa)), ("lib.s", nl(fb))], names, kind, where


def noreturn_prog(rng):
    """a helper that is CALLED but never returns (it ends the program, or spins): with and without registers that are live
    across the call"""
    live = rng.choice(["s0", "s3", "t2", "a3", None])
    L = ["main:"]
    if live:
        L.append("li %s, %d" % (live, rng.randrange(1, 9)))
    L.append("li a0, %d" % rng.randrange(0, 4))
    guard = rng.random() < 0.6
    if guard:
        L.append("%s a0, go_on" % rng.choice(["beqz", "bnez", "bgez"]))
    L.append(rng.choice(["jal fail", "call fail", "jal ra, fail"]))
    if guard:
        L.append("go_on:")
    if live:
        L.append("add a0, a0, %s" % live)
    L += ["li a7, 1", "ecall", "li a7, 10", "ecall", "fail:"]
    L += rng.choice([["li a0, 1", "li a7, 93", "ecall"], ["li a7, 10", "ecall"], ["spin:", "j spin"], ["li a0, 2", "li a7, 93", "ecall", "j fail"],
                     ["addi sp, sp, -16", "sw ra, 12(sp)", "li a7, 10", "ecall"]])
    return "\n".join(L) + "\n"


def diamond_chain(rng, n=None):
    """a function in which a saved register is clobbered (or a temporary is used after a call) in front of a long chain
    of if/else blocks with arms of equal length: the number of PATHS is 2^n, the analyses must not enumerate them"""
    n = n if n is not None else rng.randrange(22, 30)
    kind = rng.choice(["overwrite", "overwrite", "use-after-call", "clean"])
    L = ["main:", "li a0, 3", "jal work", "li a7, 1", "ecall", "li a7, 10", "ecall", "work:"]
    if kind == "overwrite":
        L += ["li s0, 7", "add a0, a0, s0"]
    elif kind == "use-after-call":
        L += ["addi sp, sp, -16", "sw ra, 12(sp)", "li t3, 5", "jal leaf"]
    for i in range(n):
        L += ["beqz a0, dc_else%d" % i, "addi a0, a0, 1", "j dc_join%d" % i, "dc_else%d:" % i, "addi a0, a0, 2", "addi a0, a0, 3", "dc_join%d:" % i]
    if kind == "use-after-call":
        L += ["add a0, a0, t3", "lw ra, 12(sp)", "addi sp, sp, 16"]
    L += ["ret"]
    if kind == "use-after-call":
        L += ["leaf:", "addi a0, a0, 1", "ret"]
    return "\n".join(L) + "\n"


def zero_reg_prog(rng):
    """instructions that TARGET x0 with a result the value analysis can compute (from constants, from a tracked stack slot,
    through every rule), each directly followed by instructions that READ x0: x0 is zero whatever was 'written' to it"""
    L = ["main:", "addi sp, sp, -16", "li t0, %d" % rng.randrange(1, 50), "li t1, %d" % rng.randrange(1, 50), "sw t0, 4(sp)"]
    for _ in range(rng.randrange(2, 6)):
        L.append(rng.choice(["addi zero, t0, %d" % rng.randrange(1, 9), "add zero, t0, t1", "lw zero, 4(sp)", "li zero, %d" % rng.randrange(1, 99), "mv zero, t1",
                             "sub x0, t1, t0", "slli zero, t0, 2", "ori x0, t0, 3", "lui zero, 5", "xor zero, t0, t1", "neg zero, t0", "lbu zero, 4(sp)"]))
        for _ in range(rng.randrange(1, 3)):
            L += rng.choice([["li a7, 1"], ["addi a1, x0, %d" % rng.randrange(0, 9)], ["neg a2, t0"], ["sub a3, x0, t1"], ["sw zero, 8(sp)", "lw a4, 8(sp)"],
                             ["add a5, zero, t0"], ["mv a6, zero"], ["slt t3, x0, t0"], ["or t4, zero, zero"], ["seqz t5, zero"]])
    L += ["li a0, 0", "add a0, a0, a1", "li a7, 1", "ecall", "addi sp, sp, 16", "li a7, 10", "ecall"]
    return "\n".join(L) + "\n"


def retreg_prog(rng):
    """a function that returns values in several argument registers (written on every path) and a caller that reads them
    after the call; and the counterpart: the caller reads a register the callee does NOT write (a genuine use after call)"""
    rets = rng.sample(["a1", "a2", "a3", "a4", "a5", "a6", "a7"], rng.randrange(1, 4))
    bad = rng.random() < 0.3
    L = ["main:", "li a0, %d" % rng.randrange(1, 20)]
    if bad:
        L.append("li t4, 5")
    L.append(rng.choice(["jal divmod", "call divmod", "jal ra, divmod"]))
    for r in rets:
        L.append("add a0, a0, %s" % r)
    if bad:
        L.append("add a0, a0, t4")
    L += ["li a7, 1", "ecall", "li a7, 10", "ecall", "divmod:"]
    if rng.random() < 0.5:
        L += ["beqz a0, dm_zero"]
        for r in rets:
            L.append("addi %s, a0, %d" % (r, rng.randrange(1, 9)))
        L += ["addi a0, a0, 1", "ret", "dm_zero:"]
    for r in rets:
        L.append("li %s, %d" % (r, rng.randrange(0, 9)))
    L += ["addi a0, a0, 2", "ret"]          # (the argument is read on every path)
    return "\n".join(L) + "\n", rets, bad



def ecall_loop_prog(rng):
    """a loop whose back edge passes an ecall whose number is COMPUTED from an argument register that is set again to the
    same constant before the ecall: whether the number is known depends on the facts that flow round the loop (round 8: an
    unknown ecall that kept the a0/a1 facts made the value analysis oscillate for ever)"""
    r = rng.choice(["a0", "a0", "a1"])
    num = rng.choice([5, 5, 6, 7, 8, 9, 12, 1, 4, 41, 42, 30])
    k = rng.choice([0, 0, 1, -1, 3])
    c = num - k
    derive = rng.choice(["addi a7, %s, %d" % (r, k), "addi a7, %s, %d" % (r, k)] + (["mv a7, %s" % r, "add a7, %s, zero" % r, "or a7, zero, %s" % r] if k == 0 else []))
    L = ["main:", "li %s, %d" % (r, c)]
    if rng.random() < 0.4:
        L.append("li %s, %d" % ("a1" if r == "a0" else "a0", rng.choice([0, 1, c])))
    L += ["serve:", derive]
    if rng.random() < 0.8:
        L.append("li %s, %d" % (r, c))
    if rng.random() < 0.3:
        L.append("li t0, 7")
    L.append("ecall")
    if rng.random() < 0.3:
        L.append("mv t1, a0")
    L.append(rng.choice(["bnez %s, serve" % r, "bnez a0, serve", "beq a0, a1, serve", "bgtz a0, serve", "blt zero, a1, serve"]))
    L += ["li a7, 10", "ecall"]
    return "\n".join(L) + "\n"


def loophead_prog(rng):
    """a conforming program whose leaf function BEGINS with a do-while loop: the loop label and the function label are on the
    same instruction, the back edge is a conditional branch to the function's own entry, and one argument register is updated
    after its last use of the iteration, to be read by the next one (round 9: branches to an entry label are modelled as calls
    passing the arguments - without that the update looks dead)"""
    regs = rng.sample(["a0", "a1", "a2", "a3", "a4", "a5"], 3)
    cnt, acc, stride = regs
    f = rng.choice(["fill", "sum", "walk"])
    alias = rng.random() < 0.6
    tgt = f + "_next" if alias else f
    L = ["main:", "li %s, %d" % (cnt, rng.randrange(1, 6)), "li %s, %d" % (acc, rng.randrange(0, 9)), "li %s, %d" % (stride, rng.randrange(0, 64))]
    L += ["jal %s" % f, rng.choice(["mv a0, a0", "addi a0, a0, 0", "add a0, a0, zero"]), "li a7, 1", "ecall", "li a7, 10", "ecall", "%s:" % f]
    if alias:
        L.append("%s:" % tgt)
    body = ["add %s, %s, %s" % (acc, acc, stride), "addi %s, %s, -1" % (cnt, cnt), "addi %s, %s, %d" % (stride, stride, rng.choice([1, 4, 8]))]
    if rng.random() < 0.5:
        body[1], body[2] = body[2], body[1]
    L += body
    L.append(rng.choice(["bnez %s, %s" % (cnt, tgt), "bgtz %s, %s" % (cnt, tgt), "bne %s, zero, %s" % (cnt, tgt), "blt zero, %s, %s" % (cnt, tgt)]))
    if acc != "a0":
        L.append("mv a0, %s" % acc)
    L.append("ret")
    return "\n".join(L) + "\n"
