"""Stage-wise and end-to-end correspondence of the analysis pipeline (S4..S12)."""
import re
import lib

STAGES = ["new1", "dir1", "avail0", "new", "dir", "dead", "avail1", "term1", "markup", "avail2", "term2", "live"]
STAGE_OF = {"S4": ["new1", "new"], "S5": ["dir1", "dir"], "S6": ["dead"], "S7": ["avail0", "avail1", "avail2"],
            "S8": ["term1", "term2"], "S9": ["markup"], "S10": ["live"]}


def single(text):
    return [("a.s", text)]


def stage_compare(ctx, stores, stages, tag="st", limit_ms=4000):
    """stores: list of (files, base).  Returns (n_evaluations, disagreements, outcome histogram)."""
    dis, hist, n = [], {}, 0
    for st in stages:
        impl, model = lib.run_pair_with_picks(
            ctx, lambda p, sb: lib.store_cmd("cfg %s %s" % (st, p), sb[0], sb[1]), stores, limit_ms=limit_ms, tag="%s-%s" % (tag, st))
        for sb, a, b in zip(stores, impl, model):
            n += 1
            kind = "cfgerror" if a.startswith("CE(") else ("timeout" if a in ("TIMEOUT", "CRASH") else ("panic" if a == "PANIC" else "graph"))
            hist[st + ":" + kind] = hist.get(st + ":" + kind, 0) + 1
            if a in ("TIMEOUT", "CRASH") and b != a:
                # the implementation hung before it could tell which exits it chose (hash-order dependent,
                # C06 known findings); without that oracle the model cannot be run on the same choices
                hist[st + ":skipped-timeout"] = hist.get(st + ":skipped-timeout", 0) + 1
                continue
            if a != b:
                dis.append(dict(stage=st, files=sb[0], base=sb[1], first_difference=first_diff(a, b)))
    return n, dis, hist


def first_diff(a, b):
    xs, ys = a.split(") "), b.split(") ")
    for u, v in zip(xs, ys):
        if u != v:
            return dict(impl=u[:600], model=v[:600])
    return dict(impl="%d parts" % len(xs), model="%d parts" % len(ys))


ITEM = re.compile(r"D\((\S+) (\S+) (\S+) (\d+) @([^)]*)\)")


def parse_diag_line(line):
    """-> (status, [ (sev, title, desc, nrel, [locs], optional) ])"""
    if line.endswith("TIMEOUT") or line.endswith("CRASH"):
        return "timeout", []
    if line.endswith("PANIC"):
        return "panic", []
    items = []
    for m in ITEM.finditer(line):
        sev, title, desc, nrel, locs = m.groups()
        opt = locs.endswith(" ?")
        if opt:
            locs = locs[:-2]
        items.append((sev, lib.dec(title), desc, int(nrel), locs.split("|"), opt))
    return "ok", items


def diag_match(impl_items, model_items):
    """lenient multiset matching: every implementation item must match a distinct model item of the same
    severity/title/description whose candidate locations contain its location; model items left over must be optional"""
    left = list(model_items)
    for it in impl_items:
        sev, title, desc, nrel, locs, _ = it
        hit = None
        # prefer model items the implementation MUST report, then the optional (hash-order dependent) ones
        for want_optional in (False, True):
            for k, m in enumerate(left):
                if m[5] == want_optional and m[0] == sev and m[1] == title and (m[2] == "*" or m[2] == desc) and locs[0] in m[4]:
                    hit = k
                    break
            if hit is not None:
                break
        if hit is None:
            return "implementation item without model counterpart: %s %r @%s" % (sev, title, locs[0])
        left.pop(hit)
    for m in left:
        if not m[5]:
            return "model item not reported by the implementation: %s %r @%s" % (m[0], m[1], "|".join(m[4]))
    return None


def diag_compare(ctx, stores, tag="dg", limit_ms=10000, release=False):
    impl, model = lib.run_pair_with_picks(
        ctx, lambda p, sb: lib.store_cmd("diag %s" % p, sb[0], sb[1]), stores, release=release, limit_ms=limit_ms, tag=tag)
    dis, parsed = [], []
    for sb, a, b in zip(stores, impl, model):
        sa, ia = parse_diag_line(a)
        sm, im = parse_diag_line(b)
        parsed.append((sa, ia, sm, im))
        if sa == "timeout" and sm != "timeout":
            continue   # see stage_compare: no exit oracle available
        if sa != sm:
            dis.append(dict(files=sb[0], base=sb[1], why="implementation %s, model %s" % (sa, sm)))
        elif sa == "ok":
            why = diag_match(ia, im)
            if why:
                dis.append(dict(files=sb[0], base=sb[1], why=why, impl=a[:1500], model=b[:1500]))
    return dis, parsed
