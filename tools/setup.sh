#!/bin/bash
# Build everything from files on disk: Coq development (full .vo), extracted OCaml driver,
# Rust harness against /repo's working tree.  Offline.
set -e
cd "$(dirname "$0")/.."
ROOT=$(pwd)
export CARGO_NET_OFFLINE=true
cd "$ROOT/coq"
coq_makefile -f _CoqProject $(find Model Spec Proofs Props -name '*.v' | sort) -o Makefile > /dev/null
mkdir -p "$ROOT/build"
# -k: a property file whose proofs are missing or broken must not stop the others from being built;
# each check re-builds its own Props/<id>.vo and reports a broken proof itself
timeout 3000 make -j16 -k 2>&1 | tee "$ROOT/build/coq_build.log" | grep -v "^COQC\|^COQDEP\|^CAMLOPT" || true
for f in Model/*.v; do test -f "${f}o" || { echo "coq model build failed: $f"; exit 1; }; done
cd "$ROOT/ocaml"
timeout 600 coqc -Q ../coq/Model RV.Model -Q ../coq/Spec RV.Spec -Q ../coq/Proofs RV.Proofs -Q ../coq/Props RV.Props -Q ../coq/Extract RV.Extract ../coq/Extract/Extract.v > /dev/null
ocamlfind ocamlopt -O2 -w -a -package str rvmodel.mli rvmodel.ml conv.ml driver.ml d_lex.ml d_parse.ml d_cfg.ml d_yaml.ml d_print.ml main.ml -o driver 2>/dev/null \
  || ocamlfind ocamlopt -w -a rvmodel.mli rvmodel.ml conv.ml driver.ml d_lex.ml d_parse.ml d_cfg.ml d_yaml.ml d_print.ml main.ml -o driver
cd "$ROOT/harness"
cargo build --offline 2>&1 | tail -2
cargo build --offline --release 2>&1 | tail -2
echo setup-ok
