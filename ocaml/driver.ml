(* Reads one command per line from the file given as argv[1] and prints one result line per
   command: the model's answer in the same canonical text form the Rust harness prints. *)
open Rvmodel
open Conv
type string = Stdlib.String.t

let mathop_of_string = function
  | "add" -> MAdd | "and" -> MAnd | "or" -> MOr | "sll" -> MSll | "slt" -> MSlt
  | "sltu" -> MSltu | "sra" -> MSra | "srl" -> MSrl | "sub" -> MSub | "xor" -> MXor
  | "mul" -> MMul | "mulh" -> MMulh | "mulhsu" -> MMulhsu | "mulhu" -> MMulhu
  | "div" -> MDiv | "divu" -> MDivu | "rem" -> MRem | "remu" -> MRemu
  | s -> failwith ("mathop " ^ s)

let show_res_optz = function
  | Ok (Some v) -> "some " ^ string_of_int (int_of_z v)
  | Ok None -> "none"
  | Panic _ -> "PANIC"
  | OutOfFuel -> "TIMEOUT"

let handlers : (string, string list -> string) Hashtbl.t = Hashtbl.create 64
let register name f = Hashtbl.replace handlers name f

let () =
  register "imm" (function [s] -> show_res_optz (imm_from_str (dec_str s)) | _ -> "BADCMD");
  register "csrimm" (function [s] -> show_res_optz (csrimm_from_str (dec_str s)) | _ -> "BADCMD");
  register "litspec" (function
    | [s] -> (match lit_value (dec_str s) with
              | Some (v, n) -> "some " ^ string_of_z v ^ " " ^ (match n with Hex -> "hex" | Bin -> "bin" | Dec -> "dec" | ZeroWord -> "zero")
              | None -> "none")
    | _ -> "BADCMD");
  register "opspec" (function
    | [o; x; y] ->
        string_of_z (spec_eval (mathop_of_string o) (z_of_int (int_of_string x)) (z_of_int (int_of_string y)))
    | _ -> "BADCMD");
  register "op" (function
    | [o; x; y] ->
        string_of_int (int_of_z (operate (mathop_of_string o) (z_of_int (int_of_string x)) (z_of_int (int_of_string y))))
    | _ -> "BADCMD")

let mathop_name = function
  | None -> "-"
  | Some MAdd -> "add" | Some MAnd -> "and" | Some MOr -> "or" | Some MSll -> "sll" | Some MSlt -> "slt"
  | Some MSltu -> "sltu" | Some MSra -> "sra" | Some MSrl -> "srl" | Some MSub -> "sub" | Some MXor -> "xor"
  | Some MMul -> "mul" | Some MMulh -> "mulh" | Some MMulhsu -> "mulhsu" | Some MMulhu -> "mulhu"
  | Some MDiv -> "div" | Some MDivu -> "divu" | Some MRem -> "rem" | Some MRemu -> "remu"
let () =
  register "instop" (function
    | [m] -> (match inst_from_str (dec_str m) with
              | Some i -> mathop_name (math_op i) ^ " " ^ mathop_name (scalar_op i)
              | None -> "none")
    | _ -> "BADCMD")

let run_file path =
  let ic = open_in path in
  (try
     while true do
       let line = input_line ic in
       let out =
         match String.split_on_char ' ' line with
         | [] | [""] -> ""
         | cmd :: args -> (
             match Hashtbl.find_opt handlers cmd with
             | Some f -> (try f args with e -> "MODEL-EXN " ^ Printexc.to_string e)
             | None -> "BADCMD")
       in
       print_string out; print_newline ()
     done
   with End_of_file -> ());
  close_in ic
