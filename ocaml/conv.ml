(* Conversions between OCaml ints/strings and the extracted Coq datatypes.  Untrusted glue. *)
open Rvmodel

let rec pos_of_int (n : int) : positive =
  if n <= 1 then XH
  else if n land 1 = 0 then XO (pos_of_int (n lsr 1)) else XI (pos_of_int (n lsr 1))
let rec int_of_pos = function
  | XH -> 1 | XO p -> 2 * int_of_pos p | XI p -> 2 * int_of_pos p + 1
let n_of_int n = if n = 0 then N0 else Npos (pos_of_int n)
let int_of_n = function N0 -> 0 | Npos p -> int_of_pos p
let z_of_int n = if n = 0 then Z0 else if n > 0 then Zpos (pos_of_int n) else Zneg (pos_of_int (-n))
let int_of_z = function Z0 -> 0 | Zpos p -> int_of_pos p | Zneg p -> - (int_of_pos p)

(* wire encoding of strings: code points in decimal separated by '.', "-" for empty *)
let dec_str s =
  if s = "-" then [] else List.map (fun x -> n_of_int (int_of_string x)) (String.split_on_char '.' s)
let enc_str l =
  if l = [] then "-" else String.concat "." (List.map (fun c -> string_of_int (int_of_n c)) l)

(* decimal printing of arbitrarily large Z (spec values are unbounded) *)
let rec dbl_add (ds : int list) (carry : int) : int list =   (* little-endian decimal digits: 2*ds + carry *)
  match ds with
  | [] -> if carry = 0 then [] else [carry]
  | d :: r -> let v = 2 * d + carry in (v mod 10) :: dbl_add r (v / 10)
let rec digits_of_pos = function
  | XH -> [1]
  | XO p -> dbl_add (digits_of_pos p) 0
  | XI p -> dbl_add (digits_of_pos p) 1
let string_of_pos p = String.concat "" (List.rev_map string_of_int (digits_of_pos p))
let string_of_z = function Z0 -> "0" | Zpos p -> string_of_pos p | Zneg p -> "-" ^ string_of_pos p
