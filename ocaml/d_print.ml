(* C18: `print <compact> <allfiles> <hasbase> <n> (sev title desc file text base sl sc sr el ec er)*`
   -> the text PrettyPrint::display_errors writes, in the wire encoding *)
open Rvmodel
open Conv
type string = Stdlib.String.t

let sev_of = function "Error" -> SevError | "Warning" -> SevWarning | "Info" -> SevInformation | _ -> SevHint
let opt s = if s = "~" then None else Some (dec_str s)
let b s = s = "1"
let n s = n_of_int (int_of_string s)

let rec items k = function
  | _ when k = 0 -> []
  | sev :: title :: desc :: file :: text :: base :: sl :: sc :: sr :: el :: ec :: er :: rest ->
      { psev = sev_of sev; ptitle = dec_str title; pdesc = dec_str desc; pfile = opt file; ptext = opt text; pbase = b base;
        prange = { rstart = { line = n sl; column = n sc; raw = n sr }; rend = { line = n el; column = n ec; raw = n er } } }
      :: items (k - 1) rest
  | _ -> failwith "print: bad item"

let print_cmd = function
  | compact :: allf :: hasb :: k :: rest -> enc_str (display_pretty (b compact) (b allf) (b hasb) (items (int_of_string k) rest))
  | _ -> "BADCMD"

let () = Driver.register "print" print_cmd

(* C10: `order <n> (sev title desc file sl sc sr el ec er)*` -> the items in output order, as `O(sev title desc file range)` *)
let sevn = function "Error" -> 0 | "Warning" -> 1 | "Information" -> 2 | _ -> 3
let sevs = function 0 -> "Error" | 1 -> "Warning" | 2 -> "Information" | _ -> "Hint"
let rec oitems k = function
  | _ when k = 0 -> []
  | sev :: title :: desc :: file :: sl :: sc :: sr :: el :: ec :: er :: rest ->
      { ofile = opt file; orange = { rstart = { line = n sl; column = n sc; raw = n sr }; rend = { line = n el; column = n ec; raw = n er } };
        osev = n_of_int (sevn sev); otitle = dec_str title; odesc = dec_str desc } :: oitems (k - 1) rest
  | _ -> failwith "order: bad item"
let show_pos p = Printf.sprintf "%d.%d.%d" (int_of_n p.line) (int_of_n p.column) (int_of_n p.raw)
let show_oitem o =
  Printf.sprintf "O(%s %s %s %s %s-%s)" (sevs (int_of_n o.osev)) (enc_str o.otitle) (enc_str o.odesc)
    (match o.ofile with None -> "~" | Some f -> enc_str f) (show_pos o.orange.rstart) (show_pos o.orange.rend)
let order_cmd = function
  | k :: rest -> String.concat " " (List.map show_oitem (output_order (oitems (int_of_string k) rest)))
  | _ -> "BADCMD"
let () = Driver.register "order" order_cmd
