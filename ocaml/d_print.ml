(* C18: `print <compact> <allfiles> <hasbase> <n> (sev title desc file text base sl sc sr el ec er)*`
   -> the text PrettyPrint::display_errors writes, in the wire encoding *)
open Rvmodel
open Conv
type string = Stdlib.String.t

let sev_of = function "Error" -> SevError | "Warning" -> SevWarning | "Info" -> SevInformation | _ -> SevHint
let opt s = if s = "~" then None else Some (dec_str s)
let b s = s = "1"
let n s = n_of_int (int_of_string s)

let rec items k = function
  | _ when k = 0 -> []
  | sev :: title :: desc :: file :: text :: base :: sl :: sc :: sr :: el :: ec :: er :: rest ->
      { psev = sev_of sev; ptitle = dec_str title; pdesc = dec_str desc; pfile = opt file; ptext = opt text; pbase = b base;
        prange = { rstart = { line = n sl; column = n sc; raw = n sr }; rend = { line = n el; column = n ec; raw = n er } } }
      :: items (k - 1) rest
  | _ -> failwith "print: bad item"

let print_cmd = function
  | compact :: allf :: hasb :: k :: rest -> enc_str (display_pretty (b compact) (b allf) (b hasb) (items (int_of_string k) rest))
  | _ -> "BADCMD"

let () = Driver.register "print" print_cmd
