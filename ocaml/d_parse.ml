(* Stage S2+S3 printers: same canonical text as harness/src/s_parse.rs *)
open Rvmodel
open Conv
open D_lex
type string = Stdlib.String.t

let show_file = function None -> "n" | Some i -> string_of_int (int_of_n i)
let show_tok t = show_ttype t.tt ^ " " ^ show_range t.trange ^ "/" ^ show_file t.tfile
let dash r = show_pos r.rstart ^ "-" ^ show_pos r.rend
let w v t = v ^ "@" ^ dash t.trange ^ "/" ^ show_file t.tfile
let l2s (l : n list) = String.concat "" (List.map (fun c -> String.make 1 (Char.chr (int_of_n c))) l)
let wi (x : inst wth) = w (l2s (inst_name x.wv)) x.wt
let wr (x : n wth) = w (string_of_int (int_of_n x.wv)) x.wt
let wz (x : z wth) = w (string_of_z x.wv) x.wt
let ws (x : n list wth) = w (enc_str x.wv) x.wt
let dirtok_name d = l2s (fst (List.find (fun (_, d') -> d' = d) dir_names))
let dt_name = function DtByte -> "byte" | DtHalf -> "half" | DtWord -> "word" | DtDouble -> "double" | DtDword -> "dword" | DtFloat -> "float"

let node_raw = function
  | PProgramEntry (_, rt) | PFuncEntry (_, rt, _) | PArith (_, _, _, _, rt) | PIArith (_, _, _, _, rt) | PLabel (_, rt)
  | PJumpLink (_, _, _, rt) | PJumpLinkR (_, _, _, _, rt) | PBasic (_, rt) | PDirective (_, _, rt) | PBranch (_, _, _, _, rt)
  | PStore (_, _, _, _, rt) | PLoad (_, _, _, _, rt) | PLoadAddr (_, _, _, rt) | PCsr (_, _, _, _, rt) | PCsrI (_, _, _, _, rt) -> rt

let show_node n =
  let body = match n with
    | PProgramEntry (f, _) -> "progentry " ^ show_file f
    | PFuncEntry (f, _, h) -> "funcentry " ^ show_file f ^ " " ^ string_of_bool h
    | PArith (i, rd, rs1, rs2, _) -> String.concat " " ["arith"; wi i; wr rd; wr rs1; wr rs2]
    | PIArith (i, rd, rs1, imm, _) -> String.concat " " ["iarith"; wi i; wr rd; wr rs1; wz imm]
    | PLabel (nm, _) -> "label " ^ ws nm
    | PJumpLink (i, rd, nm, _) -> String.concat " " ["jumplink"; wi i; wr rd; ws nm]
    | PJumpLinkR (i, rd, rs1, imm, _) -> String.concat " " ["jumplinkr"; wi i; wr rd; wr rs1; wz imm]
    | PBasic (i, _) -> "basic " ^ wi i
    | PDirective (d, dt, _) ->
        let ds = match dt with
          | DInc p -> "inc " ^ ws p
          | DAl i -> "align " ^ wz i
          | DAsc (t, nt) -> "ascii " ^ ws t ^ " " ^ string_of_bool nt
          | DDataSection -> "datasec" | DTextSection -> "textsec"
          | DDat (k, vals) -> "data " ^ dt_name k ^ " [" ^ String.concat "," (List.map wz vals) ^ "]"
          | DSp i -> "space " ^ wz i in
        "dir " ^ w (dirtok_name d.wv) d.wt ^ " " ^ ds
    | PBranch (i, rs1, rs2, nm, _) -> String.concat " " ["branch"; wi i; wr rs1; wr rs2; ws nm]
    | PStore (i, rs1, rs2, imm, _) -> String.concat " " ["store"; wi i; wr rs1; wr rs2; wz imm]
    | PLoad (i, rd, rs1, imm, _) -> String.concat " " ["load"; wi i; wr rd; wr rs1; wz imm]
    | PLoadAddr (i, rd, nm, _) -> String.concat " " ["loadaddr"; wi i; wr rd; ws nm]
    | PCsr (i, rd, csr, rs1, _) -> String.concat " " ["csr"; wi i; wr rd; wz csr; wr rs1]
    | PCsrI (i, rd, csr, imm, _) -> String.concat " " ["csri"; wi i; wr rd; wz csr; wz imm] in
  let rt = node_raw n in
  "N(" ^ body ^ " | " ^ dash rt.rrange ^ "/" ^ show_file rt.rfile ^ ")"

let expected_name = function
  | XRegister -> "REGISTER" | XImm -> "IMMEDIATE" | XLabel -> "LABEL" | XLParen -> "LPAREN" | XRParen -> "RPAREN"
  | XCsrImm -> "CSR-IMMEDIATE" | XInst -> "INSTRUCTION" | XString -> "STRING"

let show_parse_error = function
  | PEExpected (ex, t) -> "E(expected [" ^ String.concat "," (List.map expected_name ex) ^ "] " ^ show_tok t ^ ")"
  | PEUnsupported t -> "E(unsupported " ^ show_tok t ^ ")"
  | PEUnexpectedToken t -> "E(unexpectedtoken " ^ show_tok t ^ ")"
  | PEUnexpectedError t -> "E(unexpectederror " ^ show_tok t ^ ")"
  | PEUnknownDirective t -> "E(unknowndirective " ^ show_tok t ^ ")"
  | PECyclicDependency t -> "E(cyclic " ^ show_tok t ^ ")"
  | PEFileNotFound p -> "E(filenotfound " ^ ws p ^ ")"
  | PEIOError p -> "E(ioerror " ^ ws p ^ ")"
  | PEInvalidString (t, p, k) ->
      "E(invalidstring " ^ show_tok t ^ " " ^ show_pos p ^ " "
      ^ (match k with InvalidEscapeSequence -> "esc" | Unclosed -> "unclosed" | NewlineInString -> "newline") ^ ")"

(* `<n> <path> <t|f> <text> ... <base>` *)
let decode_store (a : string list) =
  let arr = Array.of_list a in
  let n = int_of_string arr.(0) in
  let files = List.init n (fun i ->
    let p = dec_str arr.(1 + 3 * i) in
    let e = if arr.(2 + 3 * i) = "t" then Inl (dec_str arr.(3 + 3 * i)) else Inr () in
    (p, e)) in
  (files, dec_str arr.(1 + 3 * n))

let parse chk a =
  let (fs, base) = decode_store a in
  match parse_from_file chk fs base false with
  | Ok ((nodes, errs), _) ->
      String.concat " " (List.map show_node nodes @ List.map show_parse_error errs @ ["END"])
  | Panic _ -> "PANIC"
  | OutOfFuel -> "TIMEOUT"

let () =
  Driver.register "parse" (parse true);
  Driver.register "parse-release" (parse false)
