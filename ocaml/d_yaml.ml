(* C19 printers: same canonical text as harness/src/s_yaml.rs *)
open Rvmodel
open Conv
open D_cfg
type string = Stdlib.String.t

let rec show_sval = function
  | SInt z -> "i" ^ string_of_z z
  | SStr s -> "s" ^ enc_str s
  | SSeq l -> "[" ^ String.concat "," (List.map show_sval l) ^ "]"
  | SMap l -> "{" ^ String.concat ";" (List.map (fun (k, v) -> show_sval k ^ "=" ^ show_sval v) l) ^ "}"
  | STag (t, v) -> "!" ^ l2s t ^ "(" ^ show_sval v ^ ")"

let names = ["func_entry"; "func_exit"; "nexts"; "prevs"; "ri"; "ro"; "mi"; "mo"; "li"; "lo"; "ud"]
let show_node_facts i = function
  | SMap l -> Printf.sprintf "Y(%d %s)" i (String.concat " " (List.map2 (fun n (_, v) -> n ^ "=" ^ show_sval v) names l))
  | _ -> "Y?"

let yaml_cmd chk = function
  | picks :: rest ->
      (match parse_store chk rest with
       | Ok ((nodes, _), _) ->
           (match gen_full_cfg (dec_picks picks) nodes with
            | Ok (SOk g) -> String.concat " " (List.mapi show_node_facts (ser_graph g) @ ["END"])
            | Ok (SErr _) -> "CFGERROR END"
            | Panic _ -> "PANIC" | OutOfFuel -> "TIMEOUT")
       | Panic _ -> "PANIC" | OutOfFuel -> "TIMEOUT")
  | _ -> "BADCMD"

let () = Driver.register "yaml" (yaml_cmd true)
