(* Stages S4..S12 printers: same canonical text as harness/src/s_cfg.rs *)
open Rvmodel
open Conv
open D_lex
open D_parse
type string = Stdlib.String.t

let rec int_of_nat = function O -> 0 | S n -> 1 + int_of_nat n
let rec nat_of_int n = if n <= 0 then O else S (nat_of_int (n - 1))
let ints l = String.concat "," (List.map (fun i -> string_of_int (int_of_nat i)) l)

let show_aval = function
  | AConst c -> "c:" ^ string_of_z c
  | AAddr l -> "a:" ^ enc_str l.wv
  | AMem (l, o) -> "m:" ^ enc_str l ^ ":" ^ string_of_z o
  | ARegScalar (r, o) -> Printf.sprintf "rs:%d:%s" (int_of_n r) (string_of_z o)
  | AOrig (r, o) -> Printf.sprintf "ors:%d:%s" (int_of_n r) (string_of_z o)
  | AMemAtReg (r, o) -> Printf.sprintf "mr:%d:%s" (int_of_n r) (string_of_z o)
  | AMemAtOrig (r, o) -> Printf.sprintf "omr:%d:%s" (int_of_n r) (string_of_z o)
  | AValueInCsr c -> "vc:" ^ string_of_z c
  | AMemAtCsr (c, o) -> "mc:" ^ string_of_z c ^ ":" ^ string_of_z o
let show_regmap m = String.concat ";" (List.map (fun (k, v) -> string_of_int (int_of_n k) ^ "=" ^ show_aval v) m)
let show_memloc = function
  | MStack o -> "so:" ^ string_of_z o | MCsr c -> "csr:" ^ string_of_z c
  | MCsrOff (c, o) -> "csro:" ^ string_of_z c ^ ":" ^ string_of_z o
let show_memmap m = String.concat ";" (List.map (fun (k, v) -> show_memloc k ^ "=" ^ show_aval v) m)

let dump g =
  let nodes = List.mapi (fun i c ->
    let labels = List.sort compare (List.map (fun l -> enc_str l.wv) c.clabels) in
    Printf.sprintf "C(%d %s L[%s] %s >[%s] <[%s] F[%s] ri[%s] ro[%s] mi[%s] mo[%s] li=%d lo=%d ud=%d)"
      i (show_node c.cn) (String.concat "," labels) (if c.ctext then "text" else "data")
      (ints c.nexts) (ints c.prevs) (ints c.cfuncs) (show_regmap c.rin) (show_regmap c.rout)
      (show_memmap c.min) (show_memmap c.mout) (int_of_n c.lin) (int_of_n c.lout) (int_of_n c.udef)) g.gnodes in
  let funcs = List.map (fun f ->
    Printf.sprintf "FN(entry=%d exit=%d nodes[%s] defs=%d)" (int_of_nat f.fentry) (int_of_nat f.fexit)
      (ints f.fnodes) (int_of_n f.fdefs)) g.gfuncs in
  let lm = List.sort compare (List.map (fun (l, f) -> (enc_str l, int_of_nat f)) g.glabelfn) in
  let lf = "LF[" ^ String.concat "," (List.map (fun (l, f) -> l ^ "=" ^ string_of_int f) lm) ^ "]" in
  String.concat " " (nodes @ funcs @ [lf])

let show_loc l = dash l.lrange ^ "/" ^ show_file l.lfile
let show_cfg_error e =
  let body = match e with
    | CLabelsNotDefined ls -> "labelsnotdefined [" ^ String.concat "," (List.sort compare (List.map (fun l -> enc_str l.wv) ls)) ^ "]"
    | CDuplicateLabel l -> "duplicatelabel " ^ enc_str l.wv
    | CLabelWithoutInstruction l -> "labelwithoutinstruction " ^ enc_str l.wv
    | CFunctionWithoutReturn (_, ls) -> "functionwithoutreturn [" ^ String.concat "," (List.sort compare (List.map (fun l -> enc_str l.wv) ls)) ^ "]" 
    | CUnexpectedError -> "unexpectederror" in
  "CE(" ^ body ^ " @" ^ show_loc (cfg_error_loc e) ^ ")"

let stage_num = function
  | "new1" -> 0 | "dir1" -> 1 | "avail0" -> 2 | "new" -> 3 | "dir" -> 4 | "dead" -> 5 | "avail1" -> 6
  | "term1" -> 7 | "markup" -> 8 | "avail2" -> 9 | "term2" -> 10 | _ -> 11
let dec_picks s = if s = "-" then [] else List.map (fun x -> nat_of_int (int_of_string x)) (String.split_on_char '.' s)

let parse_store chk a =
  let (fs, base) = decode_store a in
  parse_from_file chk fs base false

let cfg_cmd chk = function
  | stage :: picks :: rest ->
      (match parse_store chk rest with
       | Ok ((nodes, _), _) ->
           (match gen_cfg_upto (n_of_int (stage_num stage)) (dec_picks picks) nodes with
            | Ok (SOk g) -> dump g ^ " END"
            | Ok (SErr e) -> show_cfg_error e ^ " END"
            | Panic _ -> "PANIC" | OutOfFuel -> "TIMEOUT")
       | Panic _ -> "PANIC" | OutOfFuel -> "TIMEOUT")
  | _ -> "BADCMD"

let l2s (l : n list) = String.concat "" (List.map (fun c -> String.make 1 (Char.chr (int_of_n c))) l)
let sev_name = function SevError -> "Error" | SevWarning -> "Warning" | SevInformation -> "Information" | SevHint -> "Hint"

(* the diagnostic items with the model's candidate locations: D(<sev> <title> <desc> <nrel> @loc|loc.. [?]) *)
let show_ditem d =
  let (sev, title, desc) = match d.dk with
    | DLint c -> (sev_name (lint_severity c), enc_str (lint_title c), enc_str (lint_description c))
    | DParse e -> ("Error", enc_str (parse_error_title e), "*")
    | DCfg e -> ("Error", enc_str (cfg_error_title e), "*") in
  Printf.sprintf "D(%s %s %s 0 @%s%s)" sev title desc (String.concat "|" (List.map show_loc d.dlocs)) (if d.dopt then " ?" else "")

let diag_cmd chk = function
  | picks :: rest ->
      (match parse_store chk rest with
       | Ok ((nodes, errs), _) ->
           (match run_items (dec_picks picks) nodes errs with
            | Ok items -> String.concat " " (List.map show_ditem items @ ["END"])
            | Panic _ -> "PANIC" | OutOfFuel -> "TIMEOUT")
       | Panic _ -> "PANIC" | OutOfFuel -> "TIMEOUT")
  | _ -> "BADCMD"

let () =
  Driver.register "cfg" (cfg_cmd true);
  Driver.register "diag" (diag_cmd true)
