let () = Driver.run_file Sys.argv.(1)
