(* Stage S1 printers: same canonical text as harness/src/s_lex.rs *)
open Rvmodel
open Conv
type string = Stdlib.String.t

let show_pos p = Printf.sprintf "%d.%d.%d" (int_of_n p.line) (int_of_n p.column) (int_of_n p.raw)
let show_range r = show_pos r.rstart ^ " " ^ show_pos r.rend
let show_ttype = function
  | TLParen -> "lp -" | TRParen -> "rp -" | TNewline -> "nl -"
  | TLabel s -> "lab " ^ enc_str s | TSymbol s -> "sym " ^ enc_str s
  | TDirective s -> "dir " ^ enc_str s | TString s -> "str " ^ enc_str s
  | TChar c -> "chr " ^ string_of_int (int_of_n c) | TComment s -> "com " ^ enc_str s
let show_token t = show_ttype t.tt ^ " " ^ show_range t.trange
let show_item = function
  | LTok t -> "K(" ^ show_token t ^ ")"
  | LErrString (t, p, k) ->
      "ES(" ^ show_token t ^ " " ^ show_pos p ^ " "
      ^ (match k with InvalidEscapeSequence -> "esc" | Unclosed -> "unclosed" | NewlineInString -> "newline") ^ ")"
  | LErrUnexpected t -> "EU(" ^ show_token t ^ ")"

let lex chk = function
  | [s] -> (match lex_all chk None (dec_str s) with
            | Ok items -> String.concat " " (List.map show_item items @ ["END"])
            | Panic _ -> "PANIC"
            | OutOfFuel -> "TIMEOUT")
  | _ -> "BADCMD"

let () =
  Driver.register "lex" (lex true);
  Driver.register "lex-release" (lex false)
